#!/venv/bin/python
"""CLI of the srctools deterministic-simulation checks.

  run.py check <id> --tier quick|thorough
  run.py replay <file>
  run.py digest <id> <tier> <root seed> <i,j,k>     (used by the determinism self-test)
  run.py setup
  run.py selftest
  run.py cover [N] [ids]                           (lines of srctools executed by each check; tools/coverage_lines.json)
"""
from __future__ import annotations

import os
import sys

VERIF = os.path.dirname(os.path.abspath(__file__))
REPO = os.environ.get('VERIF_REPO', '/repo')


def _bootstrap() -> None:
    want_path = os.pathsep.join([os.path.join(REPO, 'src'), os.path.join(VERIF, 'shims'), VERIF])
    env = os.environ
    ok = env.get('VERIF_BOOTSTRAPPED') == '1' and (env.get('PYTHONHASHSEED') == '0' or env.get('VERIF_KEEP_HASHSEED') == '1')
    if ok:
        return
    new = dict(env)
    new['PYTHONPATH'] = want_path
    if env.get('VERIF_KEEP_HASHSEED') != '1':
        new['PYTHONHASHSEED'] = '0'
    new['PYTHONDONTWRITEBYTECODE'] = '1'
    new['PYTHONWARNINGS'] = 'ignore'
    new['SRCTOOLS_VERIF_SIM'] = '1'
    new['VERIF_BOOTSTRAPPED'] = '1'
    os.execve(sys.executable, [sys.executable, '-X', 'faulthandler', os.path.abspath(__file__)] + sys.argv[1:], new)


def main(argv: list) -> int:
    _bootstrap()
    import warnings
    warnings.simplefilter('ignore')
    from sim import core
    try:
        core.check_imports()
    except core.HarnessError as exc:
        sys.stderr.write(f'HARNESS ERROR: {exc}\n')
        return 2
    if not argv:
        sys.stderr.write(__doc__)
        return 2
    cmd = argv[0]
    if cmd == 'check':
        prop = argv[1]
        tier = os.environ.get('VERIF_TIER') or 'quick'
        if '--tier' in argv:
            tier = argv[argv.index('--tier') + 1]
        try:
            return core.check(prop, tier)
        except core.HarnessError as exc:
            sys.stderr.write(f'HARNESS ERROR: {exc}\n')
            return 2
    if cmd == 'replay':
        core.install_determinism_seams()
        return core.replay_file(argv[1])
    if cmd == 'digest':
        core.install_determinism_seams()
        prop, tier, root, idx = argv[1], argv[2], int(argv[3]), [int(x) for x in argv[4].split(',')]
        print(','.join(core.digests_for(prop, tier, root, idx)))
        return 0
    if cmd == 'setup':
        from sim import setup
        return setup.main()
    if cmd == 'mkcorpus':
        core.install_determinism_seams()
        from tools import mkcorpus
        return mkcorpus.main()
    if cmd == 'cover':
        core.install_determinism_seams()
        from tools import covreport
        return covreport.main(argv[1:])
    if cmd == 'selftest':
        from sim import setup
        return setup.selftest()
    sys.stderr.write(__doc__)
    return 2


if __name__ == '__main__':
    try:
        rc = main(sys.argv[1:])
    except SystemExit:
        raise
    except BaseException:
        import traceback
        traceback.print_exc()
        rc = 2
    sys.stdout.flush()
    sys.exit(rc)

"""SimFS fidelity self-test: seeded scripts of file-system calls run against SimFS and against a
real scratch directory (removed immediately); outcomes (data, positions, exception class) must match."""
from __future__ import annotations

import os
import shutil
import sys
import tempfile
from pathlib import Path

from sim.core import Rng
from sim import simfs

NAMES = ['a', 'b', 'd1', 'd1/c', 'd1/d2', 'd1/d2/e', 'tmp_1', 'nope/x']
MODES = ['rb', 'wb', 'ab', 'xb', 'r+b', 'w+b', 'a+b', 'r', 'w', 'x', 'a', 'r+', 'w+']


def script(seed: int):
    r = Rng(seed)
    ops = []
    for _ in range(r.randrange(5, 40)):
        k = r.random()
        n = r.pick(NAMES)
        if k < 0.35:
            ops.append(('open', n, r.pick(MODES), [
                r.pick([('write', r.randrange(0, 20000)), ('read', r.randrange(0, 30000)), ('seek', r.randrange(0, 9000), r.pick([0, 0, 2])),
                        ('tell',), ('truncate', r.randrange(0, 5000)), ('flush',), ('readline',)])
                for _ in range(r.randrange(0, 6))]))
        elif k < 0.45:
            ops.append(('mkdir', n))
        elif k < 0.5:
            ops.append(('mkdirp', n))
        elif k < 0.6:
            ops.append(('unlink', n))
        elif k < 0.7:
            ops.append(('replace', n, r.pick(NAMES)))
        elif k < 0.8:
            ops.append(('stat', n))
        elif k < 0.88:
            ops.append(('listdir', r.pick(['', 'd1', 'd1/d2', 'a'])))
        elif k < 0.94:
            ops.append(('walk',))
        elif k < 0.97:
            ops.append(('rmdir', n))
        else:
            ops.append(('exists', n))
    return ops


def execute(root: str, ops):
    res = []
    pat = bytes(range(256)) * 100
    for op in ops:
        try:
            if op[0] == 'open':
                _, n, mode, sub = op
                text = 'b' not in mode
                with open(os.path.join(root, n), mode, **({'encoding': 'latin-1', 'newline': ''} if text else {})) as f:
                    out = []
                    for s in sub:
                        try:
                            if s[0] == 'write':
                                d = pat[:s[1]]
                                out.append(f.write(d.decode('latin-1') if text else d))
                            elif s[0] == 'read':
                                d = f.read(s[1])
                                out.append(d if not text else d.encode('latin-1'))
                            elif s[0] == 'seek':
                                if text and s[2] == 2:
                                    out.append(f.seek(0, 2))
                                else:
                                    out.append(f.seek(s[1], s[2]))
                            elif s[0] == 'tell':
                                out.append(f.tell())
                            elif s[0] == 'truncate':
                                out.append(f.truncate(s[1]))
                            elif s[0] == 'flush':
                                f.flush()
                            elif s[0] == 'readline':
                                d = f.readline()
                                out.append(d if not text else d.encode('latin-1'))
                        except Exception as e:
                            out.append('EXC:' + type(e).__name__)
                res.append(out)
            elif op[0] == 'mkdir':
                os.mkdir(os.path.join(root, op[1]))
                res.append('ok')
            elif op[0] == 'mkdirp':
                Path(root, op[1]).mkdir(parents=True, exist_ok=True)
                res.append('ok')
            elif op[0] == 'unlink':
                Path(root, op[1]).unlink()
                res.append('ok')
            elif op[0] == 'rmdir':
                os.rmdir(os.path.join(root, op[1]))
                res.append('ok')
            elif op[0] == 'replace':
                os.replace(os.path.join(root, op[1]), os.path.join(root, op[2]))
                res.append('ok')
            elif op[0] == 'stat':
                st = os.stat(os.path.join(root, op[1]))
                import stat as S
                res.append((S.S_ISDIR(st.st_mode), st.st_size if not S.S_ISDIR(st.st_mode) else -1))
            elif op[0] == 'listdir':
                res.append(sorted(os.listdir(os.path.join(root, op[1]))))
            elif op[0] == 'walk':
                res.append([(os.path.relpath(d, root), sorted(ds), sorted(fs)) for d, ds, fs in sorted(os.walk(root))])
            elif op[0] == 'exists':
                p = os.path.join(root, op[1])
                res.append((os.path.exists(p), os.path.isdir(p), os.path.isfile(p), Path(p).is_file()))
        except Exception as e:
            res.append('EXC:' + type(e).__name__)
    return res


def main(n=300, seed0=0) -> int:
    bad = 0
    for seed in range(seed0, seed0 + n):
        ops = script(seed)
        real = tempfile.mkdtemp(prefix='verif_fid_')
        try:
            want = execute(real, ops)
        finally:
            shutil.rmtree(real, ignore_errors=True)
        fs = simfs.SimFS()
        fs.put_dir('/simfs/root')
        with fs:
            got = execute('/simfs/root', ops)
        if want != got:
            bad += 1
            for i, (a, b) in enumerate(zip(want, got)):
                if a != b:
                    print(f'FIDELITY MISMATCH seed={seed} op#{i} {ops[i]!r}:\n  real: {str(a)[:300]}\n  sim:  {str(b)[:300]}')
                    break
            if bad > 5:
                break
    print(f'simfs fidelity: {n} scripts, {bad} mismatches')
    return 1 if bad else 0


if __name__ == '__main__':
    sys.exit(main())

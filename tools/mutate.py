#!/venv/bin/python
"""Mutation campaign: how sensitive are the checks to small changes of the code they exercise?

For a (file, property) pair, candidate sites are AST nodes on lines that the property's own check executes
(tools/coverage_lines.json, made by `./run.py cover`).  A seeded sample of single-site mutants (comparison swap,
and/or swap, True/False, small integer +1, `not` removal, arithmetic swap, statement deletion, condition negation)
is applied, one at a time, to a scratch copy of /repo outside /repo and /verif.  Each mutant is first run through
the repository's own related tests; only mutants that those tests do not notice ("survive the tests") are run through
the property's quick check.  Results are appended to tools/mutation_results.jsonl:
  tests-killed | CAUGHT | MISSED | broken (does not import / harness error)
MISSED mutants are the interesting ones: each is either equivalent under the property statement or a gap in the check;
they are triaged by hand (tools/mutation_triage.md).

usage: tools/mutate.py --file src/srctools/vmf.py --prop C07 --n 40 [--seed 1] [--workers 4] [--jobs 3]
       tools/mutate.py --recheck            # re-run every MISSED mutant with all cores and the full test suite"""
from __future__ import annotations

import argparse
import ast
import concurrent.futures as cf
import hashlib
import json
import os
import random
import re
import shutil
import subprocess
import sys
import tempfile
import time

VERIF = os.path.dirname(os.path.dirname(os.path.abspath(__file__)))
RESULTS = os.path.join(VERIF, 'tools', 'mutation_results.jsonl')

TESTS = {
    'keyvalues.py': ['test_keyvalues.py', 'test_vmf.py', 'test_vmt.py'],
    'tokenizer.py': ['test_tokenizer.py', 'test_keyvalues.py'],
    'math.py': ['test_vec.py', 'test_angles.py', 'test_matrix.py', 'test_rotations.py'],
    'vmf.py': ['test_vmf.py', 'test_instancing.py', 'test_bsp_entities.py'],
    'bsp.py': ['test_bsp.py', 'test_bsp_entities.py', 'test_bsp_staticprops.py'],
    'binformat.py': ['test_binformat.py', 'test_bsp.py', 'test_bsp_staticprops.py', 'test_vpk.py'],
    '__init__.py': ['test_core.py'],
    'vpk.py': ['test_vpk.py'],
    'fgd.py': ['test_fgd.py', 'test_class_resources.py'],
    '_engine_db.py': ['test_fgd.py', 'test_class_resources.py'],
    '_fgd_helpers.py': ['test_fgd.py'],
    'instancing.py': ['test_instancing.py'],
    'filesys.py': ['test_packlist.py'],
    'packlist.py': ['test_packlist.py'],
}

CMP = {ast.Lt: '<=', ast.LtE: '<', ast.Gt: '>=', ast.GtE: '>', ast.Eq: '!=', ast.NotEq: '==', ast.Is: 'is not', ast.IsNot: 'is',
       ast.In: 'not in', ast.NotIn: 'in'}
CMP_TXT = {ast.Lt: '<', ast.LtE: '<=', ast.Gt: '>', ast.GtE: '>=', ast.Eq: '==', ast.NotEq: '!=', ast.Is: 'is', ast.IsNot: 'is not',
           ast.In: 'in', ast.NotIn: 'not in'}
BIN = {ast.Add: ('+', '-'), ast.Sub: ('-', '+'), ast.Mult: ('*', '/'), ast.Div: ('/', '*'), ast.FloorDiv: ('//', '/'), ast.Mod: ('%', '//'),
       ast.BitOr: ('|', '&'), ast.BitAnd: ('&', '|'), ast.LShift: ('<<', '>>'), ast.RShift: ('>>', '<<')}


class Src:
    def __init__(self, text):
        self.text = text
        self.lines = text.split('\n')
        self.offs = [0]
        for ln in self.lines:
            self.offs.append(self.offs[-1] + len(ln) + 1)

    def pos(self, lineno, col):
        # col offsets from ast are in utf8 bytes; the files are ascii apart from a few comments
        line = self.lines[lineno - 1]
        return self.offs[lineno - 1] + len(line.encode()[:col].decode(errors='ignore'))

    def span(self, node):
        return self.pos(node.lineno, node.col_offset), self.pos(node.end_lineno, node.end_col_offset)


def candidates(path, lines):
    text = open(path).read()
    src = Src(text)
    tree = ast.parse(text)
    cover = set(lines)
    res = []       # (kind, lineno, start, end, replacement, description)

    def between(a_end, b_start, old, new, kind, lineno, desc):
        seg = text[a_end:b_start]
        m = re.search(r'(?<![<>=!])' + re.escape(old) + r'(?![=<>])' if old in ('<', '>', '=', '/', '*') else re.escape(old), seg)
        if m and seg.count(old) >= 1:
            s = a_end + m.start()
            res.append((kind, lineno, s, s + len(old), new, desc))

    docstrings = set()
    for node in ast.walk(tree):
        if isinstance(node, (ast.FunctionDef, ast.ClassDef, ast.Module, ast.AsyncFunctionDef)) and node.body and isinstance(node.body[0], ast.Expr) \
                and isinstance(getattr(node.body[0], 'value', None), ast.Constant) and isinstance(node.body[0].value.value, str):
            docstrings.add(id(node.body[0]))
    in_func = set()
    for node in ast.walk(tree):
        if isinstance(node, (ast.FunctionDef, ast.AsyncFunctionDef)):
            for sub in ast.walk(node):
                in_func.add(id(sub))
    for node in ast.walk(tree):
        ln = getattr(node, 'lineno', None)
        if ln is None or ln not in cover or id(node) not in in_func:
            continue
        if isinstance(node, ast.Compare) and len(node.ops) == 1 and type(node.ops[0]) in CMP:
            a_end = src.span(node.left)[1]
            b_start = src.span(node.comparators[0])[0]
            between(a_end, b_start, CMP_TXT[type(node.ops[0])], CMP[type(node.ops[0])], 'cmp', ln, f'{CMP_TXT[type(node.ops[0])]} -> {CMP[type(node.ops[0])]}')
        elif isinstance(node, ast.BoolOp) and len(node.values) >= 2:
            old = 'and' if isinstance(node.op, ast.And) else 'or'
            new = 'or' if old == 'and' else 'and'
            between(src.span(node.values[0])[1], src.span(node.values[1])[0], old, new, 'bool', ln, f'{old} -> {new}')
        elif isinstance(node, ast.Constant) and isinstance(node.value, bool):
            s, e = src.span(node)
            res.append(('const', ln, s, e, str(not node.value), f'{node.value} -> {not node.value}'))
        elif isinstance(node, ast.Constant) and type(node.value) is int and 0 <= node.value <= 64:
            s, e = src.span(node)
            if text[s:e].isdigit():
                res.append(('int', ln, s, e, str(node.value + 1), f'{node.value} -> {node.value + 1}'))
        elif isinstance(node, ast.UnaryOp) and isinstance(node.op, ast.Not):
            s, e = src.span(node)
            os_, oe = src.span(node.operand)
            res.append(('not', ln, s, e, '(' + text[os_:oe] + ')', 'not removed'))
        elif isinstance(node, ast.BinOp) and type(node.op) in BIN and not (isinstance(node.op, ast.Mod) and isinstance(node.left, ast.Constant)):
            old, new = BIN[type(node.op)]
            between(src.span(node.left)[1], src.span(node.right)[0], old, new, 'arith', ln, f'{old} -> {new}')
        elif isinstance(node, (ast.If, ast.While)) and not isinstance(node.test, ast.Constant):
            s, e = src.span(node.test)
            res.append(('negate', ln, s, e, 'not (' + text[s:e] + ')', 'condition negated'))
        elif isinstance(node, (ast.Expr, ast.Assign, ast.AugAssign)) and id(node) not in docstrings:
            if isinstance(node, ast.Expr) and not isinstance(node.value, (ast.Call, ast.Await)):
                continue
            if isinstance(node, ast.Assign) and len(node.targets) == 1 and isinstance(node.targets[0], ast.Name):
                continue     # deleting a local binding just raises NameError later: uninteresting
            s, e = src.span(node)
            res.append(('delete', ln, s, e, 'pass', 'statement deleted'))
    return text, res


def apply(text, cand):
    kind, ln, s, e, new, desc = cand
    return text[:s] + new + text[e:]


def mutant_id(relfile, cand):
    return hashlib.blake2b(f'{relfile}|{cand[0]}|{cand[1]}|{cand[2]}|{cand[4]}'.encode(), digest_size=5).hexdigest()


def sh(cmd, env=None, cwd=None, timeout=1800):
    try:
        return subprocess.run(cmd, capture_output=True, text=True, env=env, cwd=cwd, timeout=timeout)
    except subprocess.TimeoutExpired as exc:
        class R:
            returncode = 124
            stdout = (exc.stdout or b'').decode(errors='ignore') if isinstance(exc.stdout, bytes) else (exc.stdout or '')
            stderr = 'timeout'
        return R()


def test_failures(scratch, tests):
    env = dict(os.environ, PYTHONDONTWRITEBYTECODE='1', PYTHONPATH=f'{scratch}/src:{VERIF}/shims')
    env.pop('VERIF_BOOTSTRAPPED', None)
    r = sh(['/venv/bin/python', '-m', 'pytest', '-p', 'no:cacheprovider', '-q'] + [f'tests/{t}' for t in tests],
           env=env, cwd=scratch, timeout=900)
    m = re.search(r'(\d+) failed', r.stdout)
    e = re.search(r'(\d+) error', r.stdout)
    if r.returncode == 124:
        return 10 ** 6
    if r.returncode not in (0, 1):
        return 10 ** 6
    return (int(m.group(1)) if m else 0) + (int(e.group(1)) if e else 0)


def make_scratch():
    tmp = tempfile.mkdtemp(prefix='verif_mutate_')
    subprocess.run(['rsync', '-a', '--exclude', '__pycache__', '/repo/src', '/repo/tests', '/repo/pyproject.toml', tmp + '/'], check=True)
    return tmp


def run_one(job):
    relfile, prop, cand, workers, baseline, full, text = job
    scratch = make_scratch()
    try:
        path = os.path.join(scratch, relfile)
        if open(path).read() != text:
            # /repo changed since the candidate sites were computed: positions would be wrong
            return {'id': mutant_id(relfile, cand), 'file': relfile, 'prop': prop, 'kind': cand[0], 'line': cand[1], 'desc': cand[5], 'status': 'stale'}
        new = apply(text, cand)
        rec = {'id': mutant_id(relfile, cand), 'file': relfile, 'prop': prop, 'kind': cand[0], 'line': cand[1], 'desc': cand[5],
               'old_line': text.split('\n')[cand[1] - 1].strip()[:160]}
        try:
            compile(new, path, 'exec')
        except SyntaxError:
            rec['status'] = 'broken'
            return rec
        open(path, 'w').write(new)
        rec['new_line'] = new.split('\n')[cand[1] - 1].strip()[:160]
        tests = ['.'] if full else TESTS[os.path.basename(relfile)]
        t0 = time.time()
        fails = test_failures(scratch, [''] if full else tests)
        rec['tests_s'] = round(time.time() - t0, 1)
        if fails > baseline:
            rec['status'] = 'tests-killed'
            return rec
        env = dict(os.environ, VERIF_REPO=scratch, VERIF_EVIDENCE_DIR=os.path.join(scratch, 'ev'), VERIF_REPLAY_DIR=os.path.join(scratch, 'rp'),
                   VERIF_WORKERS=str(workers))
        env.pop('VERIF_BOOTSTRAPPED', None)
        t0 = time.time()
        rec['status'] = 'MISSED'
        rec['info'] = ''
        rec['by'] = None
        for one in prop.split(','):
            r = sh([os.path.join(VERIF, 'run.py'), 'check', one, '--tier', 'quick'], env=env, timeout=1800)
            lines = [ln for ln in r.stdout.splitlines() if ln.startswith('violation:')]
            if r.returncode == 1:
                rec['status'] = 'CAUGHT'
                rec['by'] = one
                rec['info'] = lines[0][:240] if lines else ''
                break
            if r.returncode != 0:
                rec['status'] = 'broken'
                rec['by'] = one
                rec['info'] = r.stderr[-300:]
                break
        rec['check_s'] = round(time.time() - t0, 1)
        rec['workers'] = workers
        return rec
    finally:
        shutil.rmtree(scratch, ignore_errors=True)


def baseline_failures(tests, full=False):
    scratch = make_scratch()
    try:
        return test_failures(scratch, [''] if full else tests)
    finally:
        shutil.rmtree(scratch, ignore_errors=True)


def load_results():
    res = {}
    if os.path.exists(RESULTS):
        for ln in open(RESULTS):
            if ln.strip():
                r = json.loads(ln)
                res[(r['id'], r['prop'])] = r
    return res


def main():
    ap = argparse.ArgumentParser()
    ap.add_argument('--file')
    ap.add_argument('--prop')
    ap.add_argument('--n', type=int, default=30)
    ap.add_argument('--seed', type=int, default=1)
    ap.add_argument('--workers', type=int, default=4)
    ap.add_argument('--jobs', type=int, default=3)
    ap.add_argument('--recheck', action='store_true')
    ap.add_argument('--kinds', default='')
    a = ap.parse_args()
    done = load_results()
    if a.recheck:
        # every MISSED mutant again: the whole test suite of the repository first, then the checks with the time budget
        # of a 16-core quick run (VERIF_BUDGET_S is raised because several mutants run side by side)
        base = baseline_failures([], full=True)
        print('baseline failures (full suite):', base)
        os.environ['VERIF_BUDGET_S'] = '300'
        jobs = []
        cache = {}
        for (mid, prop), r in sorted(done.items()):
            if r['status'] != 'MISSED' or r.get('rechecked'):
                continue
            if r['file'] not in cache:
                cache[r['file']] = candidates(os.path.join('/repo', r['file']), range(1, 10 ** 6))
            text, cands = cache[r['file']]
            cand = next((c for c in cands if mutant_id(r['file'], c) == mid), None)
            if cand is None:
                print(mid, 'stale')
                continue
            jobs.append((r['file'], prop, cand, a.workers, base, True, text))
        counts = {}
        with cf.ThreadPoolExecutor(max_workers=a.jobs) as ex:
            for rec in ex.map(run_one, jobs):
                rec['rechecked'] = True
                counts[rec['status']] = counts.get(rec['status'], 0) + 1
                with open(RESULTS, 'a') as f:
                    f.write(json.dumps(rec) + '\n')
                print(rec['id'], rec['prop'], rec['status'], rec['file'], rec['line'], rec['desc'], '|', rec.get('new_line', ''), flush=True)
        print(counts)
        return 0
    cover = json.load(open(os.path.join(VERIF, 'tools', 'coverage_lines.json')))
    base = os.path.basename(a.file)
    lines = sorted(set().union(*[cover.get(p, {}).get(base, []) for p in a.prop.split(',')]))
    text, cands = candidates(os.path.join('/repo', a.file), lines)
    if a.kinds:
        cands = [c for c in cands if c[0] in a.kinds.split(',')]
    rnd = random.Random(f'{a.seed}|{a.file}|{a.prop}')
    rnd.shuffle(cands)
    todo = [c for c in cands if (mutant_id(a.file, c), a.prop) not in done][:a.n]
    print(f'{a.file} {a.prop}: {len(lines)} covered lines, {len(cands)} candidate sites, running {len(todo)}')
    basefail = baseline_failures(TESTS[base])
    print('baseline failures in related tests:', basefail)
    jobs = [(a.file, a.prop, c, a.workers, basefail, False, text) for c in todo]
    counts = {}
    with cf.ThreadPoolExecutor(max_workers=a.jobs) as ex:
        for rec in ex.map(run_one, jobs):
            counts[rec['status']] = counts.get(rec['status'], 0) + 1
            if rec['status'] != 'stale':
                with open(RESULTS, 'a') as f:
                    f.write(json.dumps(rec) + '\n')
            if rec['status'] == 'stale':
                continue
            if rec['status'] in ('MISSED', 'broken'):
                print(rec['status'], rec['id'], f"{rec['file']}:{rec['line']}", rec['desc'], '|', rec.get('new_line', ''), flush=True)
    print(counts)
    return 0


if __name__ == '__main__':
    sys.exit(main())

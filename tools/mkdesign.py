#!/venv/bin/python
"""Regenerate the machine-made tables of DESIGN.md (between <!-- AUTO:x --> markers) from
known_findings.json, seeded/*/meta.json, tools/mutants.d and tools/sensitivity_results.json."""
from __future__ import annotations

import json
import os
import re
import subprocess

VERIF = os.path.dirname(os.path.dirname(os.path.abspath(__file__)))


def esc(s: str) -> str:
    return s.replace('|', '\\|').replace('\n', ' ')


def findings() -> str:
    k = json.load(open(os.path.join(VERIF, 'known_findings.json')))['findings']
    subj = {}
    for ln in subprocess.run(['git', '-C', '/repo', 'log', '--format=%h %s'], capture_output=True, text=True).stdout.splitlines():
        h, _, s = ln.partition(' ')
        subj[h[:7]] = s
    out = ['| property | status | /repo commit | fingerprint (clause\\|culprit) | what failed | replay |', '|---|---|---|---|---|---|']
    for e in k:
        what = re.sub(r'^fixed: property=\S+ \S+ ', '', e['what'])
        out.append(f"| {e['property']} | {e['status']} | {e.get('commit') or '–'} | `{esc(e['fingerprint'])}` | {esc(what)} | `{e.get('replay', '')}` |")
    n_fixed = sum(1 for e in k if e['status'] == 'fixed')
    n_open = sum(1 for e in k if e['status'] == 'open')
    commits = sorted({e['commit'] for e in k if e.get('commit')})
    out.append('')
    out.append(f'{n_fixed} fixed entries over {len(commits)} `fix:` commits, {n_open} open entries.')
    return '\n'.join(out)


def seeded() -> str:
    d = os.path.join(VERIF, 'seeded')
    out = ['| id | property | file(s) touched | caught by | first violation reported (quick tier) |', '|---|---|---|---|---|']
    for name in sorted(os.listdir(d)):
        mp = os.path.join(d, name, 'meta.json')
        if not os.path.exists(mp):
            continue
        m = json.load(open(mp))
        patch = open(os.path.join(d, name, 'patch.diff')).read()
        files = sorted(set(re.findall(r'^\+\+\+ b/(\S+)', patch, re.M)))
        cr = (m.get('check_result') or {}).get('outcome', {})
        caught = [p for p, r in cr.items() if r.get('status') == 'CAUGHT']
        first = next((r.get('first_violation', '') for r in cr.values() if r.get('status') == 'CAUGHT'), '')
        first = first.replace('violation: ', '')[:150]
        out.append(f"| {name} | {m['property']} | {', '.join(f.replace('src/srctools/', '') for f in files)} | {', '.join(caught) or '**missed**'} | `{esc(first)}` |")
    return '\n'.join(out)


def mutants() -> str:
    rp = os.path.join(VERIF, 'tools', 'sensitivity_results.json')
    res = {}
    if os.path.exists(rp):
        res = {r['id']: r for r in json.load(open(rp))['results']}
    out = ['| mutant | property | change | result | wall |', '|---|---|---|---|---|']
    d = os.path.join(VERIF, 'tools', 'mutants.d')
    for fn in sorted(os.listdir(d)):
        if not fn.endswith('.mut'):
            continue
        head = open(os.path.join(d, fn)).read().split('<<<<<<< OLD')[0]
        meta = dict((ln[2:].split(':', 1)[0].strip(), ln[2:].split(':', 1)[1].strip()) for ln in head.splitlines() if ln.startswith('# ') and ':' in ln)
        r = res.get(fn[:-4], {})
        out.append(f"| {fn[:-4]} | {meta.get('prop')} | {esc(meta.get('note', ''))} | {r.get('status', 'not run')} | {r.get('wall_s', '')} |")
    return '\n'.join(out)


def mutation() -> str:
    rp = os.path.join(VERIF, 'tools', 'mutation_results.jsonl')
    if not os.path.exists(rp):
        return '(no campaign results yet)'
    tri = json.load(open(os.path.join(VERIF, 'tools', 'mutation_triage.json')))
    latest = {}
    for ln in open(rp):
        if ln.strip():
            r = json.loads(ln)
            latest[(r['id'], r['prop'])] = r
    per = {}
    for r in latest.values():
        d = per.setdefault((r['file'].replace('src/srctools/', ''), r['prop']), {'n': 0, 'tests-killed': 0, 'CAUGHT': 0, 'MISSED': 0, 'broken': 0})
        d['n'] += 1
        d[r['status']] = d.get(r['status'], 0) + 1
    out = ['| file | judged by | mutants | noticed by the repository\'s tests | survive the tests | of those caught by a check | missed | broken build |', '|---|---|---|---|---|---|---|---|']
    for (f, p), d in sorted(per.items()):
        surv = d['CAUGHT'] + d['MISSED']
        out.append(f"| {f} | {p} | {d['n']} | {d['tests-killed']} | {surv} | {d['CAUGHT']} | {d['MISSED']} | {d['broken']} |")
    out.append('')
    out.append('| missed mutant | site | change | verdict | why |')
    out.append('|---|---|---|---|---|')
    for r in sorted(latest.values(), key=lambda r: (r['file'], r['line'])):
        if r['status'] != 'MISSED':
            continue
        v = tri.get(r['id'], ['untriaged', ''])
        out.append(f"| {r['id']} | {r['file'].replace('src/srctools/', '')}:{r['line']} | {esc(r['desc'])}: `{esc(r.get('new_line', ''))}` | {v[0]} | {esc(v[1])} |")
    return '\n'.join(out)


def thorough() -> str:
    d = os.path.join(VERIF, 'evidence', 'thorough')
    out = ['| property | simulated runs | wall s | runs/hour | distinct non-trivial runs | distinct states (measure in the evidence file) | faults and schedule events that actually fired (chunk/file deliveries, truncations, decode faults, kill/errno plans, interleavings, finalizers, reopen points, lazy parses; per-kind counts in the evidence file) | new violations | known findings hit |', '|---|---|---|---|---|---|---|---|---|']
    if not os.path.isdir(d):
        return '(no thorough-tier evidence copied yet)'
    for fn in sorted(os.listdir(d)):
        e = json.load(open(os.path.join(d, fn)))
        c = e['coverage']
        probes = c.get('probes', {})
        keys = ('fault_plans_executed', 'interleavings_executed', 'finalizers_by_drop', 'collect_steps', 'reparse_phases', 'saves_after_failed_parse',
                'delivery_chunks', 'delivery_file', 'delivery_lines', 'empty_chunks', 'fault_decode_fired', 'fault_truncation', 'file_short_reads',
                'iterators_alive_across_mutation', 'judged_reopens', 'blocks_parsed_lazily', 'saves', 'poisoned_view_access_raised', 'collapse_one_calls',
                'chain_readd', 'collapses', 'overflow_rejected', 'pre_accessed_views')
        fired = sum(v for k, v in probes.items() if k.startswith('fired_') or k in keys)
        out.append(f"| {e['property_id']} | {c['evaluations']} | {round(e['wall_s'])} | {c.get('runs_per_hour', '')} | {c['distinct_nontrivial']} | {c['distinct_states']} | {fired or '–'} | {e.get('violations', 0) if isinstance(e.get('violations', 0), int) else len(e.get('violations'))} | {sum(c.get('known_findings_seen', {}).values())} |")
    return '\n'.join(out)


def main():
    p = os.path.join(VERIF, 'DESIGN.md')
    s = open(p).read()
    for name, fn in (('findings', findings), ('seeded', seeded), ('mutants', mutants), ('mutation', mutation), ('thorough', thorough)):
        pat = re.compile(rf'(<!-- AUTO:{name} -->\n).*?(<!-- /AUTO:{name} -->)', re.S)
        if not pat.search(s):
            print('marker missing:', name)
            continue
        s = pat.sub(lambda m: m.group(1) + fn() + '\n' + m.group(2), s)
    open(p, 'w').write(s)


if __name__ == '__main__':
    main()

#!/venv/bin/python
"""Sensitivity self-test: apply small source mutations to a scratch copy of /repo (under the
system temp dir, removed afterwards) and confirm that the named check reports a VIOLATION
within its quick budget.  Usage: tools/sensitivity.py [--tier quick] [id-or-property ...]"""
from __future__ import annotations

import json
import os
import shutil
import subprocess
import sys
import tempfile
import time

VERIF = os.path.dirname(os.path.dirname(os.path.abspath(__file__)))
sys.path.insert(0, VERIF)


def load_mutants():
    res = []
    d = os.path.join(VERIF, 'tools', 'mutants.d')
    for fn in sorted(os.listdir(d)):
        if not fn.endswith('.mut'):
            continue
        text = open(os.path.join(d, fn)).read()
        head, _, rest = text.partition('<<<<<<< OLD\n')
        old, _, rest = rest.partition('\n=======\n')
        new, _, _ = rest.partition('\n>>>>>>> NEW')
        m = {'id': fn[:-4], 'old': old, 'new': new}
        for ln in head.splitlines():
            if ln.startswith('# ') and ':' in ln:
                k, _, v = ln[2:].partition(':')
                m[k.strip()] = v.strip()
        res.append(m)
    return res


MUTANTS = load_mutants()


def run_mutant(m, tier='quick'):
    tmp = tempfile.mkdtemp(prefix='verif_mut_')
    try:
        subprocess.run(['rsync', '-a', '--exclude', '__pycache__', '/repo/src', '/repo/tests', tmp + '/'], check=True)
        path = os.path.join(tmp, m['file'])
        src = open(path).read()
        if src.count(m['old']) < 1:
            return 'STALE', 0.0, 'pattern not found'
        src = src.replace(m['old'], m['new'], m.get('count', 1))
        open(path, 'w').write(src)
        env = dict(os.environ, VERIF_REPO=tmp, VERIF_EVIDENCE_DIR=os.path.join(tmp, 'ev'),
                   VERIF_REPLAY_DIR=os.path.join(tmp, 'rp'))
        env.pop('VERIF_BOOTSTRAPPED', None)
        t0 = time.time()
        r = subprocess.run([os.path.join(VERIF, 'run.py'), 'check', m['prop'], '--tier', tier],
                           capture_output=True, text=True, env=env, timeout=3600)
        dt = time.time() - t0
        lines = [ln for ln in r.stdout.splitlines() if ln.startswith('violation:')]
        status = {0: 'MISSED', 1: 'CAUGHT'}.get(r.returncode, f'ERROR rc={r.returncode}')
        return status, dt, (lines[0][:300] if lines else (r.stderr[-600:] if r.returncode not in (0, 1) else ''))
    finally:
        shutil.rmtree(tmp, ignore_errors=True)


def main(argv):
    tier = 'quick'
    if '--tier' in argv:
        i = argv.index('--tier')
        tier = argv[i + 1]
        del argv[i:i + 2]
    sel = [m for m in MUTANTS if not argv or m['id'] in argv or m['prop'] in argv]
    res = []
    for m in sel:
        status, dt, info = run_mutant(m, tier)
        print(f"{m['id']:<28} {m['prop']} {status:<8} {dt:6.1f}s  {info}", flush=True)
        res.append({'id': m['id'], 'prop': m['prop'], 'status': status, 'wall_s': round(dt, 1), 'info': info})
    if not argv:
        with open(os.path.join(VERIF, 'tools', 'sensitivity_results.json'), 'w') as f:
            json.dump({'tier': tier, 'results': res}, f, indent=1)
    missed = [r for r in res if r['status'] != 'CAUGHT']
    print(f'{len(res) - len(missed)}/{len(res)} caught')
    return 1 if missed else 0


if __name__ == '__main__':
    sys.exit(main(sys.argv[1:]))

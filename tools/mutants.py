"""Hand-written sensitivity canaries (DESIGN.md section 8).  Each is a textual replacement in a
scratch copy of /repo; every one keeps the library importable."""

MUTANTS = [
    # ---- C03
    dict(id='c03-rewind-directive', prop='C03', file='src/srctools/tokenizer.py',
         old="""                        self._char_index -= 1
                        return Token.DIRECTIVE, ''.join(value_chars)""",
         new="""                        if self._char_index > 0: self._char_index -= 1
                        return Token.DIRECTIVE, ''.join(value_chars)""",
         note='push-back of one character is skipped when the character is the first of a new chunk'),
    dict(id='c03-cr-state-reset', prop='C03', file='src/srctools/tokenizer.py',
         old="""                    if isinstance(chunk, bytes):
                        raise ValueError('Cannot parse binary data!')""",
         new="""                    self._last_was_cr = False
                    if isinstance(chunk, bytes):
                        raise ValueError('Cannot parse binary data!')""",
         note='CR state forgotten at a chunk refill: CR | LF split yields two newlines'),
    dict(id='c03-decode-swallow', prop='C03', file='src/srctools/tokenizer.py',
         old="""                raise self.error("Could not decode file!") from exc""",
         new="""                return None""",
         note='decode fault turned into a clean EOF'),
    dict(id='c03-star-comment-rewind', prop='C03', file='src/srctools/tokenizer.py',
         old="""                            # "**/" parses correctly!
                            self._char_index -= 1""",
         new="""                            # "**/" parses correctly!
                            self._char_index = max(self._char_index - 1, 0)""",
         note='"**/" rewind lost when the second star starts a chunk'),
    dict(id='c03-keyerror-escape', prop='C03', file='src/srctools/tokenizer.py',
         old="""                    if escape is None:
                        raise self.error('Unterminated string!') from None
                    else:
                        next_char = '\\\\' + escape""",
         new="""                    if escape is None:
                        raise self.error('Unterminated string!') from None
                    elif escape == 'Z':
                        raise
                    else:
                        next_char = '\\\\' + escape""",
         note='an unknown escape leaks KeyError'),
]

"""Hand-written sensitivity canaries (DESIGN.md section 8).  Each is a textual replacement in a
scratch copy of /repo; every one keeps the library importable."""

MUTANTS = [
    # ---- C03
    dict(id='c03-rewind-directive', prop='C03', file='src/srctools/tokenizer.py',
         old="""                        self._char_index -= 1
                        return Token.DIRECTIVE, ''.join(value_chars)""",
         new="""                        if self._char_index > 0: self._char_index -= 1
                        return Token.DIRECTIVE, ''.join(value_chars)""",
         note='push-back of one character is skipped when the character is the first of a new chunk'),
    dict(id='c03-cr-state-reset', prop='C03', file='src/srctools/tokenizer.py',
         old="""                    if isinstance(chunk, bytes):
                        raise ValueError('Cannot parse binary data!')""",
         new="""                    self._last_was_cr = False
                    if isinstance(chunk, bytes):
                        raise ValueError('Cannot parse binary data!')""",
         note='CR state forgotten at a chunk refill: CR | LF split yields two newlines'),
    dict(id='c03-decode-swallow', prop='C03', file='src/srctools/tokenizer.py',
         old="""                raise self.error("Could not decode file!") from exc""",
         new="""                return None""",
         note='decode fault turned into a clean EOF'),
    dict(id='c03-star-comment-rewind', prop='C03', file='src/srctools/tokenizer.py',
         old="""                            # "**/" parses correctly!
                            self._char_index -= 1""",
         new="""                            # "**/" parses correctly!
                            self._char_index = max(self._char_index - 1, 0)""",
         note='"**/" rewind lost when the second star starts a chunk'),
    dict(id='c03-keyerror-escape', prop='C03', file='src/srctools/tokenizer.py',
         old="""                    if escape is None:
                        raise self.error('Unterminated string!') from None
                    else:
                        next_char = '\\\\' + escape""",
         new="""                    if escape is None:
                        raise self.error('Unterminated string!') from None
                    elif escape == 'Z':
                        raise
                    else:
                        next_char = '\\\\' + escape""",
         note='an unknown escape leaks KeyError'),
    # ---- C02
    dict(id='c02-escape-peek-in-chunk', prop='C02', file='src/srctools/tokenizer.py',
         old="""                # Escape text
                escape = self._next_char()""",
         new="""                # Escape text
                if self._char_index + 1 < len(self._cur_chunk):
                    escape = self._next_char()
                else:
                    self._next_char()
                    escape = None""",
         note='escaped character looked up only inside the current chunk'),
    dict(id='c02-no-cr-escape-multiline', prop='C02', file='src/srctools/tokenizer.py',
         old="""    if c not in '?/\\n'
))""",
         new="""    if c not in '?/\\n\\r'
))""",
         note='CR left raw in multiline mode'),
    dict(id='c02-inv-table-tab', prop='C02', file='src/srctools/tokenizer.py',
         old="""ESCAPE_RE = re.compile('|'.join(""",
         new="""ESCAPES_INV['\\b'] = '\\\\d'
ESCAPE_RE = re.compile('|'.join(""",
         note='escape tables no longer mutually inverse (backspace written as \\d)'),
    # ---- C01
    dict(id='c01-leaf-name-unescaped', prop='C01', file='src/srctools/keyvalues.py',
         old="""            file.write(f'{cur_indent}"{escape_text(self._real_name)}" "{escape_text(self._value)}"\\n')""",
         new="""            file.write(f'{cur_indent}"{self._real_name}" "{escape_text(self._value)}"\\n')""",
         note='leaf names written raw'),
    dict(id='c01-parse-folds-name', prop='C01', file='src/srctools/keyvalues.py',
         old="""                keyvalue.real_name = sys.intern(token_value)""",
         new="""                keyvalue.real_name = sys.intern(token_value.lower())""",
         note='parser loses the original casing of names'),
    dict(id='c01-indent-in-value', prop='C01', file='src/srctools/keyvalues.py',
         old="""        self._serialise(file, indent, open_brace, close_brace, start_indent)""",
         new="""        if len(indent) > 2 and isinstance(self._value, list):
            self._value[:] = [c for i, c in enumerate(self._value) if i == 0 or c._real_name != self._value[i - 1]._real_name]
        self._serialise(file, indent, open_brace, close_brace, start_indent)""",
         note='serialise with a wide indent drops adjacent duplicate names from the tree it is given'),
    # ---- C12
    dict(id='c12-toctou-tempname', prop='C12', file='src/srctools/__init__.py',
         old="""            try:
                if self.is_bytes:  # type checkers can't narrow self from this!
                    self.temp = self._temp_name.open('xb')  # type: ignore
                else:
                    self.temp = self._temp_name.open('xt', encoding=self.encoding)  # type: ignore
                break
            except FileExistsError:
                pass""",
         new="""            if self._temp_name.exists():
                continue
            if self.is_bytes:  # type checkers can't narrow self from this!
                self.temp = self._temp_name.open('wb')  # type: ignore
            else:
                self.temp = self._temp_name.open('wt', encoding=self.encoding)  # type: ignore
            break""",
         note='check-then-create instead of exclusive create: only a two-writer interleaving shows it'),
    dict(id='c12-replace-before-close', prop='C12', file='src/srctools/__init__.py',
         old="""            # Delegate down to close the file like normal.
            if self.temp is not None:""",
         new="""            if exc_type is None and self._temp_name is not None and self.temp is not None:
                self._temp_name.replace(self.filename)
                self.temp.__exit__(exc_type, exc_value, tback)
                self.temp = None
                return None
            # Delegate down to close the file like normal.
            if self.temp is not None:""",
         note='rename happens before the buffered data is flushed: a kill in between leaves a prefix'),
    dict(id='c12-no-cleanup-on-body-exc', prop='C12', file='src/srctools/__init__.py',
         old="""        # An exception occurred in the body, clean up.
        try:
            self._temp_name.unlink()
        except FileNotFoundError:
            pass""",
         new="""        # An exception occurred in the body, clean up.
        if self.filename.exists():
            try:
                self._temp_name.unlink()
            except FileNotFoundError:
                pass""",
         note='temp file only removed when the destination already exists'),
    dict(id='c12-truncate-dest-first', prop='C12', file='src/srctools/__init__.py',
         old="""                # No exception, commit changes
                self._temp_name.replace(self.filename)""",
         new="""                # No exception, commit changes
                if self.filename.exists() and self._temp_name.stat().st_size > 16384:
                    self.filename.unlink()
                self._temp_name.replace(self.filename)""",
         note='large files: destination removed before the rename, a kill in between loses both'),
    # ---- C13
    dict(id='c13-footer-dropped-on-append-open', prop='C13', file='src/srctools/vpk.py',
         old="""            self.footer_data = dirfile.read()""",
         new="""            self.footer_data = dirfile.read() if self.mode is OpenModes.READ else b''""",
         note='data stored after the tree is forgotten when an archive is opened for appending and saved again'),
    dict(id='c13-two-tuple-no-ext-split', prop='C13', file='src/srctools/vpk.py',
         old="""    if not ext and '.' in filename:""",
         new="""    if not ext and '.' in filename and not (isinstance(value, tuple) and len(value) == 2 and filename.isupper()):""",
         note='2-tuple spelling of an upper-case name is not split into name/extension'),
    dict(id='c13-limit-off-by-one', prop='C13', file='src/srctools/vpk.py',
         old="""        arch_data = data[limit:]""",
         new="""        arch_data = data[limit + 1:] if len(data) == limit + 2 else data[limit:]""",
         note='one byte lost when the data is exactly two bytes over the preload limit'),
    dict(id='c13-overwrite-keeps-old-offset', prop='C13', file='src/srctools/vpk.py',
         old="""                    self.offset = file.seek(0, os.SEEK_END)
                    file.write(arch_data)""",
         new="""                    end = file.seek(0, os.SEEK_END)
                    if not self.offset or self.arch_index != arch_index:
                        self.offset = end
                    file.write(arch_data)""",
         note='overwriting a file stored in an archive keeps pointing at the old bytes'),
    dict(id='c13-readonly-del', prop='C13', file='src/srctools/vpk.py',
         old="""        self._check_writable()

        path, filename, ext = _get_file_parts(item)

        try:
            folders = self._fileinfo[ext]""",
         new="""        path, filename, ext = _get_file_parts(item)

        try:
            folders = self._fileinfo[ext]""",
         note='read-only archive accepts deletion'),
    # ---- C07
    dict(id='c07-copyset-live-iter', prop='C07', file='src/srctools/vmf.py',
         old="""        cur_items: frozenset[T] = frozenset(self)

        yield from cur_items""",
         new="""        cur_items: frozenset[T] = frozenset(self)

        yield from set.__iter__(self)""",
         note='CopySet iterates the live set: fails only when a mutation lands while an iterator is alive'),
    dict(id='c07-remove-ent-unnamed', prop='C07', file='src/srctools/vmf.py',
         old="""        _remove_copyset(self.by_target, item['targetname'].casefold() or None, item)
        if 'nodeid' in item:""",
         new="""        if item['targetname']:
            _remove_copyset(self.by_target, item['targetname'].casefold(), item)
        if 'nodeid' in item:""",
         note='removing an unnamed entity leaves it in by_target[None]'),
    dict(id='c07-add-ents-lower', prop='C07', file='src/srctools/vmf.py',
         old="""            self.by_class[item['classname'].casefold()].add(item)
            self.by_target[item['targetname', ''].casefold() or None].add(item)""",
         new="""            self.by_class[item['classname'].lower()].add(item)
            self.by_target[item['targetname', ''].lower() or None].add(item)""",
         note='add_ents folds with lower(): differs from casefold() only for characters like ß'),
    dict(id='c07-spawn-reclass', prop='C07', file='src/srctools/vmf.py',
         old="""                if str_val.casefold() != 'worldspawn':
                    self['classname'] = 'worldspawn'  # Revert the change.""",
         new="""                if str_val.casefold() != 'worldspawn' and str_val:
                    self['classname'] = 'worldspawn'  # Revert the change.""",
         note='worldspawn can be given an empty class'),
    dict(id='c07-setitem-readd-removed', prop='C07', file='src/srctools/vmf.py',
         old="""            if self in self.map.entities or self is self.map.spawn:
                self.map.by_target[str_val.casefold() or None].add(self)""",
         new="""            if self in self.map.entities or self is self.map.spawn or orig_val:
                self.map.by_target[str_val.casefold() or None].add(self)""",
         note='renaming an entity that was removed from the map files it in by_target again'),
]

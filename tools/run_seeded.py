#!/venv/bin/python
"""Validate seeded changes produced by independent sub-agents and run the checks against them.

  tools/run_seeded.py import /tmp/seeded_out     # validate demo+tests in scratch worktrees, copy to /verif/seeded/
  tools/run_seeded.py check [id ...] [--tier quick]   # apply each kept patch to /repo, run the property's check, undo

A change is kept only if: demo exits 0 on the clean tree, exits 1 with the patch, the patch applies to HEAD, and the
repository's tests (run against the patched src) still give the clean-tree result (12 sandbox failures, 2103 passed)."""
from __future__ import annotations

import concurrent.futures
import json
import os
import re
import shutil
import subprocess
import sys
import time

VERIF = os.path.dirname(os.path.dirname(os.path.abspath(__file__)))
SEEDED = os.path.join(VERIF, 'seeded')


def sh(cmd, **kw):
    return subprocess.run(cmd, shell=isinstance(cmd, str), capture_output=True, text=True, **kw)


def validate(src_dir, prop, variant):
    sid = f'{prop}-{variant}'
    wt = f'/tmp/wt_val_{sid}'
    sh(f'git -C /repo worktree remove --force {wt}')
    r = sh(f'git -C /repo worktree add -q --detach {wt} HEAD')
    if r.returncode:
        return sid, False, 'worktree: ' + r.stderr
    try:
        env = dict(os.environ, PYTHONPATH=f'{wt}/src:{VERIF}/shims', PYTHONDONTWRITEBYTECODE='1')
        demo = os.path.join(src_dir, 'demo.py')
        patch = os.path.join(src_dir, 'patch.diff')
        if not (os.path.exists(demo) and os.path.exists(patch)):
            return sid, False, 'missing files'
        clean = subprocess.run(['/venv/bin/python', demo], capture_output=True, text=True, env=env, cwd=wt, timeout=300)
        if clean.returncode != 0:
            return sid, False, f'demo fails on clean tree rc={clean.returncode}: {clean.stdout[-300:]}{clean.stderr[-300:]}'
        ap = sh(f'git -C {wt} apply {patch}')
        if ap.returncode:
            return sid, False, 'patch does not apply: ' + ap.stderr[-300:]
        bad = subprocess.run(['/venv/bin/python', demo], capture_output=True, text=True, env=env, cwd=wt, timeout=300)
        if bad.returncode == 0:
            return sid, False, 'demo passes with the patch'
        t = subprocess.run(['/venv/bin/python', '-m', 'pytest', '-p', 'no:cacheprovider', '-q', 'tests'], capture_output=True, text=True, env=env, cwd=wt, timeout=1800)
        tail = t.stdout.strip().splitlines()[-1] if t.stdout.strip() else ''
        m = re.search(r'(\d+) failed, (\d+) passed', tail)
        if not m or (m.group(1), m.group(2)) != ('12', '2103'):
            return sid, False, 'tests changed: ' + tail
        return sid, True, f'demo clean rc=0, patched rc={bad.returncode}: {bad.stdout.strip().splitlines()[-1][:200] if bad.stdout.strip() else ""}; tests: {tail}'
    finally:
        sh(f'git -C /repo worktree remove --force {wt}')
        shutil.rmtree(wt, ignore_errors=True)


def do_import(root):
    jobs = []
    for prop in sorted(os.listdir(root)):
        pd = os.path.join(root, prop)
        if not (os.path.isdir(pd) and re.fullmatch(r'C\d\d', prop)):
            continue
        for variant in sorted(os.listdir(pd)):
            vd = os.path.join(pd, variant)
            if os.path.isdir(vd) and not os.path.exists(os.path.join(SEEDED, f'{prop}-{variant}', 'meta.json')):
                jobs.append((vd, prop, variant))
    with concurrent.futures.ThreadPoolExecutor(max_workers=5) as ex:
        for (vd, prop, variant), (sid, ok, info) in zip(jobs, ex.map(lambda j: validate(*j), jobs)):
            print(sid, 'KEPT' if ok else 'REJECTED', info, flush=True)
            if not ok:
                continue
            dst = os.path.join(SEEDED, sid)
            os.makedirs(dst, exist_ok=True)
            for fn in ('patch.diff', 'demo.py', 'notes.md'):
                if os.path.exists(os.path.join(vd, fn)):
                    shutil.copy(os.path.join(vd, fn), os.path.join(dst, fn))
            notes = open(os.path.join(vd, 'notes.md')).read() if os.path.exists(os.path.join(vd, 'notes.md')) else ''
            meta = {'id': sid, 'property': prop, 'source': 'independent sub-agent given only the property text and a scratch worktree',
                    'needs_to_manifest': notes[:1500], 'validated': info,
                    'validation_cmds': ['PYTHONPATH=<wt>/src:/tmp/shims /venv/bin/python demo.py  (clean: 0, patched: 1)',
                                        'PYTHONPATH=<wt>/src:/tmp/shims /venv/bin/python -m pytest -q tests  (12 failed, 2103 passed)'],
                    'repo_head': sh('git -C /repo rev-parse --short HEAD').stdout.strip(), 'check_result': None}
            json.dump(meta, open(os.path.join(dst, 'meta.json'), 'w'), indent=1)


def do_check(ids, tier):
    res = {}
    for sid in sorted(os.listdir(SEEDED)):
        d = os.path.join(SEEDED, sid)
        if not os.path.isdir(d) or (ids and sid not in ids and sid.split('-')[0] not in ids):
            continue
        meta = json.load(open(os.path.join(d, 'meta.json')))
        if sh('git -C /repo status --porcelain --untracked-files=no').stdout.strip():
            print('refusing: /repo has uncommitted changes')
            return 2
        ap = sh(f'git -C /repo apply {os.path.join(d, "patch.diff")}')
        if ap.returncode:
            print(sid, 'STALE patch does not apply:', ap.stderr[-200:])
            continue
        try:
            env = dict(os.environ, VERIF_EVIDENCE_DIR=f'/tmp/seeded_ev_{sid}', VERIF_REPLAY_DIR=f'/tmp/seeded_rp_{sid}')
            env.pop('VERIF_BOOTSTRAPPED', None)
            props = meta.get('check_properties') or [meta['property']]
            outcome = {}
            for prop in props:
                t0 = time.time()
                r = subprocess.run([os.path.join(VERIF, 'run.py'), 'check', prop, '--tier', tier], capture_output=True, text=True, env=env, timeout=7200)
                lines = [ln for ln in r.stdout.splitlines() if ln.startswith('violation:')]
                status = {0: 'MISSED', 1: 'CAUGHT'}.get(r.returncode, f'ERROR rc={r.returncode}')
                outcome[prop] = {'status': status, 'wall_s': round(time.time() - t0, 1), 'first_violation': lines[0][:400] if lines else r.stderr[-300:]}
                print(f'{sid:<10} {prop} {tier} {status:<7} {time.time() - t0:6.1f}s  {lines[0][:260] if lines else ""}', flush=True)
        finally:
            sh('git -C /repo checkout -- .')
            shutil.rmtree(f'/tmp/seeded_ev_{sid}', ignore_errors=True)
            shutil.rmtree(f'/tmp/seeded_rp_{sid}', ignore_errors=True)
        meta['check_result'] = {'tier': tier, 'verif_head': sh(f'git -C {VERIF} rev-parse --short HEAD').stdout.strip(), 'outcome': outcome}
        json.dump(meta, open(os.path.join(d, 'meta.json'), 'w'), indent=1)
        res[sid] = outcome
    missed = [s for s, o in res.items() if not any(v['status'] == 'CAUGHT' for v in o.values())]
    print(f'{len(res) - len(missed)}/{len(res)} caught; missed: {missed}')
    return 0


if __name__ == '__main__':
    a = sys.argv[1:]
    tier = 'quick'
    if '--tier' in a:
        i = a.index('--tier')
        tier = a[i + 1]
        del a[i:i + 2]
    if a and a[0] == 'import':
        do_import(a[1])
    elif a and a[0] == 'check':
        sys.exit(do_check(a[1:], tier))
    else:
        print(__doc__)

#!/venv/bin/python
"""Builds the committed corpus of given BSP files (corpus/bsp/*.bsp) used as inputs by the C10 check.
They are produced once, with the tree as it is now, from the hand-packed minimal map populated through the
library; committing them makes C10's inputs independent of the writers of the tree under test
(a later change to a writer cannot silently change the files the check starts from).
Run through run.py's environment:  ./run.py mkcorpus"""
from __future__ import annotations

import io
import json
import os
import sys

from sim.core import Rng, VERIF
from sim import simfs
from machines import bspgen as G
from srctools.bsp import BSP


def main(n=160, extra=60) -> int:
    """The first n files (standard v19-v21 layouts) are never regenerated once they exist; `extra` more files cover
    the INFRA (22), Chaos (25) and VitaminSource (43) layouts."""
    d = os.path.join(VERIF, 'corpus', 'bsp')
    os.makedirs(d, exist_ok=True)
    index = []
    ipath = os.path.join(d, 'INDEX.json')
    if os.path.exists(ipath):
        index = [x for x in json.load(open(ipath)) if x['version'] in (19, 20, 21)]
    base_done = len(index) >= n
    i = -1
    total = n + extra
    while len(index) < total:
        i += 1
        if not base_done and len(index) >= n:
            base_done = True
            i = 0
        if base_done:
            r = Rng(0xC0DF0000 + i)
            version = r.pick([22, 25, 25, 43, 43])
        else:
            r = Rng(0xC0DE0000 + i)
            version = r.pick([19, 20, 21, 21])
        l4d2 = version == 21 and r.chance(0.3)
        groups = [g for g in G.ALL_GROUPS if r.chance(0.6)]
        fs = simfs.SimFS()
        path = simfs.MOUNT + '/c/in.bsp'
        fs.put(path, G.make_skeleton(version=version, l4d2=l4d2))
        with fs:
            b = BSP(path)
            G.populate(b, r.child('values'), set(groups))
            old = sys.stdout
            sys.stdout = io.StringIO()
            try:
                b.save()
            finally:
                sys.stdout = old
            # must read back identically (the writers were checked by C11 when this corpus was made)
            want = G.observe_all(BSP(path))
        blob = fs.get(path)
        if len(blob) > 24000:
            continue        # keep the committed corpus small (huge visibility tables are covered by generated inputs)
        name = f'{"var" if base_done else "gen"}{i:03}_v{version}{"_l4d2" if l4d2 else ""}.bsp'
        with open(os.path.join(d, name), 'wb') as f:
            f.write(blob)
        index.append({'file': name, 'version': version, 'l4d2': l4d2, 'groups': groups, 'bytes': len(blob)})
    with open(os.path.join(d, 'INDEX.json'), 'w') as f:
        json.dump(index, f, indent=0)
    print(f'{len(index)} files, {sum(x["bytes"] for x in index)} bytes')
    return 0


if __name__ == '__main__':
    sys.exit(main())

#!/venv/bin/python
"""Record an open known finding: copy the (minimised) replay written by a check to replays/known/ and add an
`open` entry with its fingerprint to known_findings.json.
usage: record_known.py <replay file> <slug> <what>"""
import json, os, shutil, sys
VERIF = os.path.dirname(os.path.dirname(os.path.abspath(__file__)))
src, slug, what = sys.argv[1:4]
rec = json.load(open(src))
prop, fp = rec['property'], rec['violation']['fp']
rel = f'replays/known/{prop}-{slug}.json'
os.makedirs(os.path.join(VERIF, 'replays/known'), exist_ok=True)
shutil.copy(src, os.path.join(VERIF, rel))
kf = os.path.join(VERIF, 'known_findings.json')
k = json.load(open(kf))
k['findings'] = [e for e in k['findings'] if not (e['property'] == prop and e['fingerprint'] == fp)]
k['findings'].append({'property': prop, 'fingerprint': fp, 'status': 'open', 'what': what, 'replay': rel})
json.dump(k, open(kf, 'w'), indent=1)
print('recorded open finding', prop, fp)

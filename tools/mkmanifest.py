#!/venv/bin/python
"""Regenerates /verif/MANIFEST.json from the table below and the machines that exist."""
from __future__ import annotations

import json
import os
import sys

VERIF = os.path.dirname(os.path.dirname(os.path.abspath(__file__)))
sys.path.insert(0, VERIF)
from sim.core import MACHINES  # noqa: E402

PY = '/venv/bin/python'

NA = {
    'C04': 'Not applicable to deterministic simulation: rotation algebra is pure arithmetic on immutable values — no state between calls, no stream, disk, finalizer, iteration or fault a schedule could vary; the quantifier is over inputs only (property-based testing would be the right tool, DESIGN.md section 6).',
    'C14': 'Not applicable: DMX export/parse is a function of one element graph and option set; the KV2 half\'s independence from delivery is exactly C03, the binary half reads a seekable buffer with no delivery freedom; no history, crash or fault clause (DESIGN.md section 6).',
    'C15': 'Not applicable: VTF header/resource/pixel codecs are functions of their input and the bounds-check clause is a predicate on one call; the statement does not quantify over access order or stream lifetime (DESIGN.md section 6).',
    'C20': 'Not applicable: six independent value<->text/bytes codecs (cmdseq, choreo, sndscript, vmt, particles, smd) quantified over inputs/configurations only; nothing for a scheduler or fault injector to decide (DESIGN.md section 6).',
}

CLAIMS = {
    'C16': dict(
        category='exploration', technique='deterministic simulation: seeded query histories on a fresh lazily-parsed database (lookups in any order, interleaved full loads, mutation of handed-out copies) against a full-load reference; text/binary round trips through the simulated disk with short reads',
        engine='history-machine+E2-simfs',
        text='(a) Lazy histories: a fresh EngineDB (fgd.lzma) receives seeded sequences of get_ent / EntityDef.engine_def for existing, alias, unknown and mixed-case names, get_classnames / engine_classes, an interleaved get_fgd and mutations of every copy handed out; each answer must equal the definition from a database loaded in full first (class, kind, alias flag, bases and whether they are resolved, keyvalues with type/display name/default/flags, inputs/outputs, resources). (b) The complete bundled database is exported to text on the simulated disk, parsed back and exported again (fixed point, fields equal up to the documented I/O type decay), and serialised/unserialised in the binary format. (c) Generated FGDs (every value type, empty display names/defaults/descriptions, strings over 1000 characters with and without spaces, tagged duplicates, bases, spawnflags, choices, resources) go through the text cycle under seeded options and short reads; generated engine-format FGDs large enough for the binary format are serialised, unserialised and queried lazily in a seeded order with the generating spec as ground truth. Strings include generated long texts whose escapes crowd around the 1000-character split points of the exporter; returned copies are edited directly and through their .kv/.inp/.out views.',
        note='Descriptions/helpers are not stored by the binary format and are generated empty there; boolean defaults blank vs 0 and spawnflags display names are normalised as the text syntax requires.', ref='5/C16'),
    'C05': dict(
        category='exploration', technique='seeded operation histories over an object pool with invariants evaluated after every step (claimed on the histories quantifier; no seam or fault exists for this property and the evidence says so)',
        engine='history-machine',
        text='Seeded histories (4-40 operations) over a pool of Vec/FrozenVec/Angle/FrozenAngle/Matrix/FrozenMatrix objects whose results are fed back as operands: constructor forms, with_axes, setters, *=, @ and @= over every operand type pair, reflected @ with tuples, transform() blocks, to_angle(), from_basis, from_str, copy/deepcopy/pickle, freeze/thaw, str/format/join, vector arithmetic; start values include tiny negatives, exact multiples of 360 and values within 1e-12..1e-3 of the poles. After every step: every Angle component in [0,360); component and hash snapshots of every frozen object unchanged; copies equal to and independent of their source; text form matches -?digits(.1-6 digits), never -0, and parses back within 5e-7 (angles modulo 360). Operations cover construction, item/attribute assignment, every augmented and binary operator, rotations by Angle/Matrix, conversions, min/max/clamp/lerp/bbox, axis_angle and the deprecated rotation helpers, copy/deepcopy/pickle, freeze/thaw.',
        note='Python twin only; two open known findings (text "-0" for Vec and FrozenVec) are suppressed by exact fingerprint because a pinned repository test fixes that output.', ref='5/C05'),
    'C18': dict(
        category='exploration', technique='simulated disk as seam monitor: every path reaching the OS seam during a call is recorded; seeded search over path spellings, root spellings, working directories and chain prefixes (weak fit for simulation, labelled as such: no schedule or fault dimension)',
        engine='E2-simfs-monitor',
        text='A simulated disk holds a root with nested files, siblings whose names extend the root\'s name (directory and file), and files in ancestors. RawFileSystem(constrain_path=True) is created under seeded root spellings (trailing separator, relative, with ".." segments, doubled slash) and working directories, alone or inside a FileSystemChain with a sub-folder prefix, and is driven with seeded path strings (.., ., both separators, absolute prefixes, names of outside files) through in / [] / open_bin / open_str / walk_folder / cache_key. The monitor fails the run if any operation touched a path that is not the root or below root+separator, or if data of an outside file was returned; packlist.unify_path must raise or return a non-escaping path for the same strings.',
        note='POSIX path semantics; no symlinks on the simulated disk; differential/seam-monitor evidence, not a schedule search.', ref='5/C18'),
    'C19': dict(
        category='exploration', technique='differential simulation over one in-memory disk: four storage back-ends materialised from the same seeded file set, dict reference model, chain construction histories (weak fit for simulation, labelled as such)',
        engine='E2-simfs',
        text='A seeded file set (nested folders, mixed-case names, names and folders that are string prefixes of others) is materialised as VirtualFileSystem, a zip written with zipfile, a VPK written with the library and a directory tree on the simulated disk. Seeded query spellings (case changes, both slashes) must agree with a folded, slash-normalised dict on in / [] / open_bin; walk_folder for seeded folders ("", prefix-of-sibling, mixed case, backslash, trailing slash, missing) must list exactly the files inside, each listed name must resolve and open to its bytes, iteration equals walk_folder(""); chains built by seeded add_sys(prefix, priority) sequences over up to 4 members (names shared between members, also in another letter case) must return the first member\'s content, address prefixed members relative to their prefix, and list each name once; zips are also written with explicit directory entries and opened as already-open archives sharing one label, and members are re-added to a chain (with and without priority).',
        note='Directory backend judged for exact-case spellings only; names unique case-insensitively within one set.', ref='5/C19'),
    'C10': dict(
        category='exploration', technique='deterministic simulation: seeded access/save/reopen histories on an in-memory disk over given files (committed corpus, generated maps, container variants from an independent codec, sample map), judged by an independent container decoder plus the reader on fresh objects',
        engine='history-machine+E2-simfs',
        text='Given files (a committed corpus of 220 maps built once from hand-packed minimal maps in the v19/20/21, INFRA v22, Chaos v25 and VitaminSource v43 layouts, freshly generated maps, the sample map under tests/; each optionally re-packed by an independent container codec with LZMA-compressed lumps and game lumps and L4D2 header order; 1 input in 10 has one deliberately unparseable lump) go through seeded histories of view accesses (subsets and orders of the 21 views, biased to 1-3), indirect helpers, save, save-as, reopen and collect steps. A view access that raises on an unparseable lump is caught like a tool would; the damaged lump must then be byte-identical after the save. After every save the independent decoder compares version, revision, lump versions, compression flags and game-lump table, byte equality of every lump without a structured view (all lumps when nothing was accessed), emptied lumps, and the library reader on fresh objects compares every structured view; a further save of the result must change nothing.',
        note='Parsed content (including the output separator of the entity lump) is compared exactly through the library reader (C11 decides reader/writer inversion); displacement and physics-collision payloads are opaque bytes.', ref='5/C10'),
    'C11': dict(
        category='exploration', technique='deterministic simulation: seeded assignment histories (views looked at first, value groups assigned, save, reopen) on an in-memory disk; observation of assigned objects as reference model; overflow injection',
        engine='history-machine+E2-simfs',
        text='On a hand-packed minimal map (v19/20/21, INFRA v22, Chaos v25 or VitaminSource v43 layout; optional L4D2 order and LZMA lumps) a seeded subset of independent views is accessed first, then seeded well-formed values are assigned to a seeded subset of 16 value groups (texinfo/texdata/names, planes, vertexes+surfedges with reversed edges, primitives, faces+original+HDR faces sharing planes/texinfo/edges, brushes+sides with overlapping side ranges, nodes+leafs with cross references, water info, run-length coded visibility incl. >255-byte zero runs, cubemaps, overlays, entity lump with either output separator, brush models with physics blocks, static props of every format version the layout allows, detail props of all three kinds, pakfile); after save and reopen every view must equal the observation of what was assigned. Overflow runs push one field outside its on-disk range: the only accepted outcomes are an exception with the file unchanged or an exact round trip.',
        note='float32-representable numbers compared exactly; compiled-map conventions listed in the evidence assumptions.', ref='5/C11'),
    'C17': dict(
        category='exploration', technique='deterministic simulation: seeded collapse histories over shared cached templates, reference rotation/naming models as oracle, bounded liveness of collapse_all on recursive graphs measured on a deterministic step clock (collapse_one calls)',
        engine='history-machine+stepclock',
        text='1-3 seeded templates (brushes with displacements/point data, point and brush entities of real FGD classes with position-, angle- and name-typed keys, outputs, $variables, nested func_instance entities with fixups) and 1-6 placements (identity / axis-aligned / arbitrary angles, three fixup styles, fixup tables) are collapsed in a seeded order through one cached InstanceFile per template. After every collapse: the template (export text, params, proxies, entity fixups) is unchanged; what the placement added equals what it adds when collapsed alone (order independence); the placed result equals the identity collapse transformed by an independent plain-math Source rotation (positions, texture axes with the offset law, displacement data, point data, orientation keys compared as matrices); names and $variables follow three-line reference functions. Recursive graphs (self / mutual, branching 1-2, default and small recur_limit) must end in a return or RecursionError within a budget of collapse_one calls, for every spelling (case, slashes) of the file references; a non-recursive chain must collapse completely with the prefix of the named top-level instances on every name. After each collapse no mutable object may be shared between the cached template and the copies, and the entity, brush and face IDs of the target stay unique. Lights carry the negated-pitch key, judged against their rotated angles.',
        note='Pitch kept away from +-90 degrees; only the curated key types are judged; FGD database trusted as configuration.', ref='5/C17'),
    'C09': dict(
        category='exploration', technique='deterministic simulation: seeded object specs, copy, then a seeded history of in-place mutations on one side with the other side observed after every step; identity-based aliasing walker; operand snapshots for operators',
        engine='history-machine',
        text='Entities (with brushes, outputs, fixups), brushes, faces (displacements power 1-4 with multiblend, allowed verts, point data), outputs, nested visgroups, Keyvalues trees and EntityFixup objects are built from seeded specs and copied within a map or across maps (and through copy.copy/deepcopy/pickle/+/+=/extend where applicable). Completeness: observation and export text of the copy equal the original apart from IDs. Independence: a generic walker over slots/attrs/containers reports any mutable object reachable from both sides, and a seeded list of in-place mutations (translate, localise, key/fixup/output/vertex edits, in-place arithmetic on every reachable vector) on one side must leave the other side\'s observation unchanged after every step. Operators: operands of Keyvalues + and Vec/Angle/Matrix binary operators (all operand type pairs) are snapshotted before and after. Fixup tables are observed through behaviour (substitute, items) as well as stored fields.',
        note='Objects are sampled; IDs (incl. node IDs) excluded from completeness; owning VMF shared by design.', ref='5/C09'),
    'C08': dict(
        category='exploration', technique='deterministic simulation: seeded operation histories with a scheduled heap (harness-owned references, gc disabled, drop/collect as steps deciding when finalizers release IDs), invariant after every step',
        engine='history-machine+E3-heap',
        text='Seeded histories over two maps: entities, solids, sides, prisms, visgroups and groups created with desired IDs (negative, zero, duplicates of live IDs, huge), copy() within and across maps, add/remove/re-add, nodeid edits, fixup set/delete/construct/copy, export+parse and generated documents with colliding/zero/missing IDs, interleaved with heap events (drop the last reference, collect) under a seeded GC policy, so the finalizer that releases an ID runs before, between or after removal and re-issue. After every step the IDs of live objects of each kind (reachable from the map or held and never removed) must be pairwise distinct positive integers; fixup indexes distinct and >= 1. Creation paths: constructors with desired IDs, copy within and across maps, parse of documents with colliding / zero / negative / missing IDs, export+parse, and collapse_one of generated instance maps numbered from 1.',
        note='preserve_ids=True maps exempt; live-set definition stated in evidence assumptions; histories sampled.', ref='5/C08'),
    'C06': dict(
        category='exploration', technique='deterministic simulation: maps reached by seeded API histories, exported through a simulated text file (host newline mode) and delivered to the parser under seeded chunk/file schedules; observation walker + ID bijection as oracle',
        engine='history-machine+E1-stream+E2-simfs',
        text='Seeded map specs (entities, outputs in both separator/instance forms, fixups, hidden objects, brush entities, prisms and arbitrary faces, displacements power 1-4 with vertex data, multiblend and allowed verts, nested visgroups, groups, cameras, cordons, Strata viewports/point data) are realised through the public API, mutated by a seeded API history, exported (minimal/disp_multiblend seeded), sent through a simulated file in \\n or \\r\\n mode and a seeded delivery schedule, parsed (preserve_ids seeded) and exported again. Every observed field of the re-parsed map must equal the original within the stated tolerances (IDs up to a consistent per-kind bijection) and the second text must equal the first; all .vmf files under tests/ are also cycled. In 40% of runs the first parse result is then edited in place all over, the same text is parsed again and must give the first observation exactly, and the two object graphs must share no mutable object.',
        note='Map contents are sampled; strings avoid what the format cannot represent; one open known finding (negative-zero text) is suppressed by exact fingerprint.', ref='5/C06'),
    'C07': dict(
        category='exploration', technique='deterministic simulation: seeded operation histories with swarm-disabled op kinds, cooperative reader tasks (live iterators stepped between mutations), invariant vs. a scan reference model after every step',
        engine='history-machine+E4-tasks',
        text='Seeded histories over every classname/targetname mutation path (create_ent, Entity()+add_ent, add_ents, remove_ent, Entity.remove, re-add, [], del, update, pop, clear, setdefault, make_unique, copy within/across maps, export+parse, worldspawn re-class) in all letter cases, interleaved by the scheduler with next() steps of live iterators over by_class/by_target/search/iter_ents. After every step both maps are compared with a scan of entities+spawn (stale, missing, search results, worldspawn), and readers must not raise, duplicate or lose an untouched member.',
        note='Weakest reading of case-insensitive matching is judged (key convention is not); Entity.__hash__ replaced by a serial for replay; histories sampled.', ref='5/C07'),
    'C13': dict(
        category='exploration', technique='deterministic simulation: seeded operation histories on an in-memory disk with reopen = restart from durable bytes, checked against a dict reference model and an independent decoder of the directory file',
        engine='E2-simfs',
        text='Seeded histories of open(r/w/a) / add_file / new_file+write / overwrite / delete / write_dirfile / context exit / reopen over directory and single-file archives, all preload limits and archive indexes, sizes crossing the limit and 64 KiB, all three name spellings; after every reopen that follows write_dirfile the listed names, read(), verify(), verify_all(), name-form identity and VPKFileSystem reads must equal the model, and an independent decoder of the bytes on the simulated disk must find the same names, bytes, CRCs and a consistent tree length; read-only archives must reject every mutation and leave the disk byte-identical. Short raw reads/writes are injected as legal disk behaviour.',
        note='No crash promise is judged (none is stated). Names restricted to what the format can represent. SimFS is a validated stub.', ref='5/C13'),
    'C12': dict(
        category='fault_enumeration', technique='deterministic simulation with fault injection: in-memory disk behind open/os.*, complete single-fault enumeration per workload (kill before/after/torn at every disk operation, every legal errno, sticky ENOSPC, short write, EINTR), baton-passed two-writer interleavings',
        engine='E2-simfs',
        text='Each seeded workload (destination state, stale temp files, body script with writes straddling the buffer size, body exception, writer reuse, bytes/text, host newline mode, buffer size) is first run fault-free to obtain NEW and its N disk operations; then every single-fault plan over those N operations is executed on a fresh simulated disk and the frozen disk (after a kill) or the disk after the handled failure is judged: destination is exactly OLD or NEW, bystanders untouched, no temp file left by a handled failure, restart on the surviving bytes succeeds. Two writers run as real threads parked at every disk operation; all (i,j) boundary pairs and seeded interleavings are executed. BSP.save workloads on committed corpus maps run under sampled plans of the same space (destination old or new, never opened for writing itself, temp cleaned up). Complete for the single-fault space of each explored AtomicWriter workload; workloads themselves are sampled.',
        note='Process-kill crash model (no power-loss reordering); SimFS validated against a real directory (tools/fidelity.py); CPython io layers are the real ones.', ref='5/C12'),
    'C01': dict(
        category='exploration', technique='deterministic simulation: seeded tree workload x serialise options x seeded chunk/file delivery schedules, reference model = the tree',
        engine='E1-stream',
        text='Seeded trees are serialised (to str and to text file objects in both host newline modes) and parsed back under str, list, generator-chunk, line and file-object deliveries with cuts biased into escape sequences; a structural walk compares names (original casing), values, shape and order with the tree, serialise must not mutate its argument, and outputs under different indentation options must agree outside quoted strings (independent scanner). The quantifier over trees is sampled; the delivery dimension is searched.',
        note='Python tokenizer twin only; trees sampled (<=150 nodes, depth<=5); names without CR/LF as the statement says.', ref='5/C01'),
    'C02': dict(
        category='exploration', technique='deterministic simulation: bounded-exhaustive + seeded strings x every single chunk cut of the escaped text x embedding templates, expected token list as reference model',
        engine='E1-stream',
        text='For every string over the 15-symbol escape alphabet up to length 3 (quick) / 4 (thorough) and seeded Unicode strings, in both escaping modes and seven embedding templates (KeyValues, VMF comment/fixup/output, BSP entity lump, DMX-KV2 lines): escape_text output has no raw quote / line break and tokenizes to exactly the expected tokens under every single cut of the quoted text, every-char chunks, multi-cuts with empty chunks and a file object with short raw reads.',
        note='Python twin of escape_text/Tokenizer only; strings beyond the enumerated bound are sampled.', ref='5/C02'),
    'C03': dict(
        category='fault_enumeration', technique='deterministic simulation: seeded chunk-delivery schedules + stream fault injection (truncation, decode fault), differential against single-string delivery, line-event step clock',
        engine='E1-stream',
        text='Seeded search over delivery schedules (every single cut for short texts, bounded-exhaustive texts up to length 3/4 over the syntax alphabet, multi-cuts, empty chunks, lines, file object with short raw reads) and injected stream faults (EOF at any instant, decode error at chunk k) of the real Python Tokenizer and Keyvalues.parse; totality, sticky EOF, a linear step budget on a deterministic line-event clock and equality with the single-string delivery are checked on every run; Keyvalues.parse is also entered through a tokenizer the caller built (with and without a file name) and must still raise KeyValError only. Evidence, not proof, beyond the enumerated bound.',
        note='Pure-Python tokenizer only (Cython twin cannot be built offline); reference = same tokenizer on one string; CPython io layers trusted.', ref='5/C03'),
}


def main() -> int:
    checks = []
    na = [{'property_id': k, 'reason': v} for k, v in sorted(NA.items())]
    for prop in sorted(MACHINES):
        have = os.path.exists(os.path.join(VERIF, 'machines', MACHINES[prop] + '.py')) and prop in CLAIMS
        if not have:
            na.append({'property_id': prop, 'reason': 'check not built yet in this revision (planned as claimed, see DESIGN.md section 5); nothing is asserted about it'})
            continue
        c = CLAIMS[prop]
        checks.append({
            'property_id': prop,
            'quick_cmd': f'{PY} /verif/run.py check {prop} --tier quick',
            'thorough_cmd': f'{PY} /verif/run.py check {prop} --tier thorough',
            'evidence_file': f'/verif/evidence/{prop}.json',
            'replay_cmd_template': f'{PY} /verif/run.py replay {{path}}',
            'engine': c['engine'],
            'level_claimed': {'category': c['category'], 'text': c['text'], 'design_ref': c['ref']},
            'level_note': c['note'],
            'technique': c['technique'],
        })
    na.sort(key=lambda d: d['property_id'])
    man = {
        'version': 1,
        'setup_cmd': f'{PY} /verif/run.py setup',
        'hooks': {
            'guard': 'SRCTOOLS_VERIF_SIM',
            'enable': 'no source hooks exist: every seam (chunk iterables, builtins.open/io.open/os.*, reference holding, Entity.__hash__) is reached from outside the library; checks import /repo/src directly (PYTHONPATH=/repo/src:/verif/shims), so the working tree is what runs',
            'baseline_off_cmd': 'cd /repo && /venv/bin/python -m pytest -ra -q -p no:cacheprovider --timeout=900 --continue-on-collection-errors',
            'source_commits': [],
            'add_only': True,
        },
        'engines': [
            {'name': 'E1-stream', 'path': 'sim/stream.py', 'serves_properties': ['C01', 'C02', 'C03', 'C06', 'C16'], 'kind_free_text': 'delivery schedules and stream faults for text consumers'},
            {'name': 'E2-simfs', 'path': 'sim/simfs.py', 'serves_properties': ['C10', 'C11', 'C12', 'C13', 'C18', 'C19'], 'kind_free_text': 'in-memory file system behind builtins.open/io.open/os.* with crash, OSError, short/torn write injection'},
            {'name': 'core', 'path': 'sim/core.py', 'serves_properties': sorted(MACHINES), 'kind_free_text': 'seed derivation, run loop, ddmin shrinker, replay files, known findings, evidence'},
        ],
        'checks': checks,
        'not_applicable': na,
        'notes': 'exit 0 = held (KNOWN-FINDING lines for listed open findings), 1 = VIOLATION with replay file, 2 = harness error (never a VIOLATION). Fix commits in /repo are listed in known_findings.json as fixed.',
    }
    with open(os.path.join(VERIF, 'MANIFEST.json'), 'w') as f:
        json.dump(man, f, indent=1)
        f.write('\n')
    print(f'{len(checks)} checks, {len(na)} not_applicable')
    return 0


if __name__ == '__main__':
    sys.exit(main())

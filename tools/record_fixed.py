#!/venv/bin/python
"""Record a repaired defect: run a hand-written (minimal) case against the tree *before* the fix
(a scratch worktree, removed afterwards), take the violation it produces there, check that the
current tree no longer produces it, store the replay under replays/fixed/ and add a `fixed`
entry to known_findings.json.

usage: record_fixed.py <property> <slug> <before-commit> <fix-commit> <case.json | -> <what> [fp-substring]"""
from __future__ import annotations

import json
import os
import subprocess
import sys

VERIF = os.path.dirname(os.path.dirname(os.path.abspath(__file__)))


def run_case(repo, prop, case):
    rec = {'property': prop, 'tier': 'quick', 'seed': 0, 'case': case,
           'violation': {'clause': '?', 'fp': '\0none', 'detail': ''}, 'digest': None}
    tmp = f'/tmp/verif_case_{os.getpid()}.json'
    json.dump(rec, open(tmp, 'w'))
    env = dict(os.environ, VERIF_REPO=repo)
    env.pop('VERIF_BOOTSTRAPPED', None)
    r = subprocess.run([os.path.join(VERIF, 'run.py'), 'replay', tmp], capture_output=True, text=True, env=env)
    os.unlink(tmp)
    obs = []
    for ln in r.stdout.splitlines():
        if ln.startswith('  observed: '):
            fp, _, detail = ln[len('  observed: '):].partition(' :: ')
            obs.append((fp, detail))
    if r.returncode not in (0, 1):
        print(r.stdout, r.stderr)
    return obs


def main(argv):
    prop, slug, before, fixc, casefile, what = argv[:6]
    sub = argv[6] if len(argv) > 6 else ''
    case = json.load(sys.stdin if casefile == '-' else open(casefile))
    wt = f'/tmp/verif_before_{os.getpid()}'
    subprocess.run(['git', '-C', '/repo', 'worktree', 'add', '-q', '--detach', wt, before], check=True)
    try:
        obs = run_case(wt, prop, case)
    finally:
        subprocess.run(['git', '-C', '/repo', 'worktree', 'remove', '--force', wt], check=True)
    obs = [o for o in obs if sub in o[0]]
    if not obs:
        print('case does not fail on', before)
        return 1
    fp, detail = obs[0]
    now = [o for o in run_case('/repo', prop, case) if o[0] == fp]
    if now:
        print('still failing on the current tree:', now[0])
        return 1
    rel = f'replays/fixed/{prop}-{slug}.json'
    rec = {'property': prop, 'tier': 'quick', 'seed': 0, 'case': case,
           'violation': {'clause': fp.split('|')[0], 'fp': fp, 'detail': detail}, 'digest': None,
           'repo_head': f'{before} (before fix {fixc})'}
    os.makedirs(os.path.join(VERIF, 'replays/fixed'), exist_ok=True)
    json.dump(rec, open(os.path.join(VERIF, rel), 'w'), sort_keys=True)
    kf = os.path.join(VERIF, 'known_findings.json')
    k = json.load(open(kf))
    k['findings'] = [e for e in k['findings'] if e.get('replay') != rel]
    k['findings'].append({'property': prop, 'fingerprint': fp, 'status': 'fixed', 'commit': fixc,
                          'what': f'fixed: property={prop} {fixc} {what}', 'replay': rel})
    json.dump(k, open(kf, 'w'), indent=1)
    print('recorded', fp)
    return 0


if __name__ == '__main__':
    sys.exit(main(sys.argv[1:]))

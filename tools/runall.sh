#!/bin/sh
# Run every registered check (quick by default) against /repo and print one line each.
tier=${1:-quick}
cd /verif
for p in C01 C02 C03 C05 C06 C07 C08 C09 C10 C11 C12 C13 C16 C17 C18 C19; do
  start=$(date +%s)
  out=$(./run.py check $p --tier $tier 2>&1); rc=$?
  end=$(date +%s)
  echo "$p rc=$rc $((end-start))s $(echo "$out" | tail -1)"
  echo "$out" | grep -E "^(VIOLATION|HARNESS)" | head -3
done

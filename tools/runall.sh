#!/bin/sh
# Run every registered check (quick by default) against /repo and print one line each.
# Thorough results are also copied to evidence/thorough/<id>.json so a later quick run does not erase them.
tier=${1:-quick}
shift 2>/dev/null
props=${*:-C01 C02 C03 C05 C06 C07 C08 C09 C10 C11 C12 C13 C16 C17 C18 C19}
cd /verif
for p in $props; do
  start=$(date +%s)
  out=$(./run.py check $p --tier $tier 2>&1); rc=$?
  end=$(date +%s)
  echo "$p rc=$rc $((end-start))s $(echo "$out" | tail -1)"
  echo "$out" | grep -E "^(VIOLATION|HARNESS|KNOWN-FINDING)" | head -5
  if [ "$tier" = thorough ] && [ $rc -eq 0 ]; then mkdir -p evidence/thorough; cp evidence/$p.json evidence/thorough/$p.json; fi
done

#!/venv/bin/python
"""Which lines of /repo/src/srctools does each check execute?  Runs N seeded cases of every machine in-process
under coverage.py (present in /venv) and writes tools/coverage_lines.json: {property: {file: [lines]}} plus a
per-function summary for the anchored files.  Used (a) as a reach probe: anchored functions that a check never enters
are listed, and (b) by tools/mutate.py, which only mutates lines the property's own check executes.

usage: ./run.py exec tools/covreport.py [N] [props...]      (needs run.py's environment)"""
from __future__ import annotations

import ast
import json
import os
import sys

import coverage

VERIF = os.path.dirname(os.path.dirname(os.path.abspath(__file__)))
REPO = os.environ.get('VERIF_REPO', '/repo')
SRC = os.path.join(REPO, 'src', 'srctools')


def functions(path):
    tree = ast.parse(open(path).read())
    res = []

    def walk(node, prefix):
        for ch in ast.iter_child_nodes(node):
            if isinstance(ch, (ast.FunctionDef, ast.AsyncFunctionDef)):
                res.append((prefix + ch.name, ch.lineno, ch.end_lineno))
                walk(ch, prefix + ch.name + '.')
            elif isinstance(ch, ast.ClassDef):
                walk(ch, prefix + ch.name + '.')
    walk(tree, '')
    return res


def main(argv):
    n = int(argv[0]) if argv and argv[0].isdigit() else 300
    props = [a for a in argv if not a.isdigit()]
    cov = coverage.Coverage(data_file=None, include=[SRC + '/*'], branch=False)
    cov.start()
    from sim import core, seams
    cov.stop()
    outp = os.path.join(VERIF, 'tools', 'coverage_lines.json')
    result = json.load(open(outp)) if os.path.exists(outp) else {}
    for prop in props or sorted(core.MACHINES):
        cov.erase()
        cov.start()
        machine = core.load_machine(prop)
        done = 0
        for i in range(n):
            seed = core.H(1, prop, 'quick', i)
            try:
                case = machine.gen(core.Rng(seed), 'quick', i)
                case['seed'] = seed
                core.execute(machine, case)
                done += 1
            except Exception as exc:      # harness problem: report, keep going
                print('error', prop, i, repr(exc)[:200])
        cov.stop()
        data = cov.get_data()
        lines = {}
        for f in data.measured_files():
            if f.startswith(SRC):
                lines[os.path.relpath(f, SRC)] = sorted(data.lines(f) or [])
        result[prop] = lines
        print(prop, done, 'cases;', {k: len(v) for k, v in sorted(lines.items()) if len(v) > 30})
    json.dump(result, open(outp, 'w'))
    return 0


if __name__ == '__main__':
    sys.exit(main(sys.argv[1:]))

#!/bin/sh
# Run the repository's own tests against /repo/src (not site-packages).  12 failures are expected
# in this sandbox (Cython accelerators cannot be built): 3 test_smoke, 5 test_vec::test_matching_apis, 4 test_vtf::test_save[Cython-*].
cd /repo && PYTHONDONTWRITEBYTECODE=1 PYTHONPATH=/repo/src:/verif/shims /venv/bin/python -m pytest -p no:cacheprovider -q "${@:-tests}" 2>&1 | tail -16

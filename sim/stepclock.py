"""Deterministic step clock (DESIGN.md 3.4): counts executed line events of selected
srctools modules with sys.monitoring and raises StepBudgetExceeded when a budget is passed.
Replays exactly (it counts bytecode-line events, not time)."""
from __future__ import annotations

import sys
import types

mon = sys.monitoring
TOOL = mon.PROFILER_ID


class StepBudgetExceeded(BaseException):
    """Raised inside the watched code when the line-event budget is used up."""


class _State:
    count = 0
    budget = 1 << 62
    active = False
    registered = False
    watched: set = set()


def _cb(code, line):
    if _State.active:
        _State.count += 1
        if _State.count > _State.budget:
            _State.active = False
            raise StepBudgetExceeded(f'line-event budget {_State.budget} exceeded in {code.co_qualname}')
    return None


def _codes_of(obj, seen, modname):
    if isinstance(obj, types.CodeType):
        if obj in seen:
            return
        seen.add(obj)
        for c in obj.co_consts:
            if isinstance(c, types.CodeType):
                _codes_of(c, seen, modname)
    elif isinstance(obj, (types.FunctionType,)):
        if obj.__module__ == modname:
            _codes_of(obj.__code__, seen, modname)
    elif isinstance(obj, (staticmethod, classmethod)):
        _codes_of(obj.__func__, seen, modname)
    elif isinstance(obj, property):
        for f in (obj.fget, obj.fset, obj.fdel):
            if f is not None:
                _codes_of(f, seen, modname)
    elif isinstance(obj, type):
        if obj.__module__ == modname and obj not in seen:
            seen.add(obj)
            for v in vars(obj).values():
                _codes_of(v, seen, modname)


def watch_module(module) -> int:
    """Enable LINE events on every code object defined in the module."""
    if not _State.registered:
        mon.use_tool_id(TOOL, 'verif-stepclock')
        mon.register_callback(TOOL, mon.events.LINE, _cb)
        _State.registered = True
    seen: set = set()
    for v in vars(module).values():
        _codes_of(v, seen, module.__name__)
    n = 0
    for c in seen:
        if isinstance(c, types.CodeType) and c not in _State.watched:
            mon.set_local_events(TOOL, c, mon.events.LINE)
            _State.watched.add(c)
            n += 1
    return n


class clock:
    """with clock(budget) as c: ...; c.count is the number of line events executed."""

    def __init__(self, budget: int) -> None:
        self.budget = budget
        self.count = 0

    def __enter__(self):
        _State.count = 0
        _State.budget = self.budget
        _State.active = True
        return self

    def __exit__(self, *exc):
        _State.active = False
        self.count = _State.count
        return False

"""Simulator core shared by every check: seeds, sub-streams, digests, run loop,
shrinking, replay files, known findings, evidence.

One integer (VERIF_SEED) decides everything: run i of property P in tier T uses
seed_i = H(VERIF_SEED, P, T, i); inside a run every decision is drawn from a named
sub-stream Rng(seed_i).child(name).  Nothing here reads a clock except for wall-time
budgets and the evidence's wall_s / runs_per_hour (which never feed back into a run).
"""
from __future__ import annotations

import collections
import faulthandler
import gc
import hashlib
import importlib
import io
import json
import os
import random
import subprocess
import sys
import time
import traceback
from concurrent.futures import ProcessPoolExecutor, as_completed
import multiprocessing

VERIF = os.path.dirname(os.path.dirname(os.path.abspath(__file__)))
REPO = os.environ.get('VERIF_REPO', '/repo')
REPO_SRC = os.path.join(REPO, 'src')
EVIDENCE_DIR = os.environ.get('VERIF_EVIDENCE_DIR') or os.path.join(VERIF, 'evidence')
REPLAY_DIR = os.environ.get('VERIF_REPLAY_DIR') or os.path.join(VERIF, 'replays')
KNOWN_FILE = os.path.join(VERIF, 'known_findings.json')


# --------------------------------------------------------------------------- seeds
def H(*parts) -> int:
    """64-bit hash of the parts (stable across processes and hash seeds)."""
    h = hashlib.blake2b(digest_size=8)
    for p in parts:
        h.update(repr(p).encode('utf8', 'surrogatepass'))
        h.update(b'\x00')
    return int.from_bytes(h.digest(), 'big')


class Rng(random.Random):
    """random.Random with named child streams; deleting a step from one stream's
    consumer does not shift another stream."""

    def __init__(self, seed: int) -> None:
        super().__init__(seed)
        self._seed_int = seed

    def child(self, name: str) -> 'Rng':
        return Rng(H(self._seed_int, name))

    def chance(self, p: float) -> bool:
        return self.random() < p

    def pick(self, seq):
        return seq[self.randrange(len(seq))]

    def wpick(self, pairs):
        """pairs: list of (item, weight)."""
        total = sum(w for _, w in pairs)
        x = self.random() * total
        for item, w in pairs:
            x -= w
            if x < 0:
                return item
        return pairs[-1][0]


def digest_of(obj) -> str:
    data = json.dumps(obj, sort_keys=True, ensure_ascii=True, default=_json_default)
    return hashlib.blake2b(data.encode('ascii'), digest_size=12).hexdigest()


def _json_default(o):
    if isinstance(o, (bytes, bytearray)):
        return {'__b': bytes(o).hex()}
    if isinstance(o, (set, frozenset)):
        return sorted(o, key=repr)
    if isinstance(o, tuple):
        return list(o)
    raise TypeError(f'not JSON-able in event log: {type(o).__name__}')


def jdump(obj) -> str:
    return json.dumps(obj, sort_keys=True, ensure_ascii=True, default=_json_default)


# --------------------------------------------------------------------------- outcome
class Outcome:
    """What one simulated run produced."""
    __slots__ = ('viol', 'log', 'stats', 'nontrivial', 'states', 'steps', 'sample')

    def __init__(self) -> None:
        self.viol: list[dict] = []      # {'clause','fp','detail'}
        self.log: list = []             # event log (JSON-able) -> digest
        self.stats = collections.Counter()
        self.nontrivial = False
        self.states: set[str] = set()   # abstract states / schedule classes reached
        self.steps = 0                  # simulated steps
        self.sample = None

    def violate(self, clause: str, culprit: str, detail: str) -> None:
        fp = f'{clause}|{culprit}' if culprit else clause
        for v in self.viol:
            if v['fp'] == fp:
                return
        self.viol.append({'clause': clause, 'fp': fp, 'detail': detail[:2000]})

    def event(self, *rec) -> None:
        self.log.append(rec)


class HarnessError(Exception):
    """A fault of the machinery, never a VIOLATION."""


# --------------------------------------------------------------------------- machine loading
def load_machine(prop: str):
    mod = importlib.import_module(f'machines.{MACHINES[prop]}')
    return mod


MACHINES = {
    'C01': 'kv', 'C02': 'esc', 'C03': 'tok',
    'C05': 'mathobj', 'C06': 'vmf_rt', 'C07': 'vmf_index', 'C08': 'vmf_ids',
    'C09': 'vmf_copy', 'C10': 'bsp_lossless', 'C11': 'bsp_inverse',
    'C12': 'atomic', 'C13': 'vpk', 'C16': 'fgddb', 'C17': 'inst',
    'C18': 'fs_root', 'C19': 'fs_agree',
}


def check_imports() -> None:
    import srctools
    f = os.path.realpath(srctools.__file__)
    if not f.startswith(os.path.realpath(REPO_SRC) + os.sep):
        raise HarnessError(f'srctools imported from {f}, not from {REPO_SRC}')


def install_determinism_seams() -> None:
    """Section 3.2 of DESIGN.md."""
    gc.disable()
    from sim import seams
    seams.install()


def execute(machine, case: dict) -> Outcome:
    """Run one case with library stdout swallowed and global library state reset."""
    from sim import seams
    seams.reset_library_state(getattr(machine, 'RESET_FGD', False))
    old = sys.stdout
    sys.stdout = io.StringIO()
    try:
        out = machine.run(case)
    finally:
        sys.stdout = old
    return out


def known_findings() -> dict:
    try:
        with open(KNOWN_FILE) as f:
            data = json.load(f)
    except FileNotFoundError:
        return {}
    res = {}
    for ent in data.get('findings', []):
        if ent.get('status') == 'open':
            res[(ent['property'], ent['fingerprint'])] = ent
    return res


# --------------------------------------------------------------------------- worker
def _worker_batch(prop: str, tier: str, root_seed: int, indices: list, known_fps: list) -> dict:
    faulthandler.dump_traceback_later(600, exit=True)
    try:
        machine = load_machine(prop)
        known = set(known_fps)
        res = {
            'n': 0, 'nontrivial_digests': [], 'digests': 0, 'stats': collections.Counter(),
            'states': set(), 'steps': 0, 'known': collections.Counter(), 'unknown': [],
            'samples': [], 'errors': [],
        }
        for idx in indices:
            seed = H(root_seed, prop, tier, idx)
            try:
                case = machine.gen(Rng(seed), tier, idx)
                case['seed'] = seed
                out = execute(machine, case)
            except Exception:
                res['errors'].append({'index': idx, 'seed': seed, 'tb': traceback.format_exc()[-3000:]})
                continue
            res['n'] += 1
            if res['n'] % 20 == 0:
                gc.collect()   # between runs (never inside one): cyclic garbage of finished runs
            res['stats'].update(out.stats)
            res['steps'] += out.steps
            res['states'].update(out.states)
            if out.nontrivial:
                res['nontrivial_digests'].append(digest_of(out.log))
            for v in out.viol:
                if v['fp'] in known:
                    res['known'][v['fp']] += 1
                elif len(res['unknown']) < 4 and not any(u['viol']['fp'] == v['fp'] for u in res['unknown']):
                    res['unknown'].append({'case': case, 'viol': v, 'index': idx})
                else:
                    res['stats']['unknown_violations_not_kept'] += 1
            if len(res['samples']) < 1 and out.nontrivial:
                res['samples'].append(out.sample if out.sample is not None else case)
        res['states'] = sorted(res['states'])
        return res
    finally:
        faulthandler.cancel_dump_traceback_later()


def _worker_init() -> None:
    sys.path.insert(0, VERIF)
    install_determinism_seams()
    gc.collect()
    gc.freeze()     # collections between runs only look at what the runs allocated


# --------------------------------------------------------------------------- shrinking
def _still_fails(machine, case: dict, fp: str) -> bool:
    try:
        out = execute(machine, case)
    except Exception:
        return False
    return any(v['fp'] == fp for v in out.viol)


def shrink(machine, case: dict, fp: str, budget_s: float = 40.0) -> dict:
    """Delta debugging on case['steps'] (if present) followed by the machine's own
    simplifications; a candidate is kept only if the same fingerprint fails."""
    t0 = time.monotonic()
    best = json.loads(jdump(case))

    def ok(c):
        return time.monotonic() - t0 < budget_s and _still_fails(machine, c, fp)

    changed = True
    while changed and time.monotonic() - t0 < budget_s:
        changed = False
        for key in getattr(machine, 'SHRINK_LISTS', ('steps',)):
            seq = best.get(key)
            if not isinstance(seq, list) or not seq:
                continue
            n = 2
            while len(seq) >= 1 and time.monotonic() - t0 < budget_s:
                chunk = max(1, len(seq) // n)
                removed = False
                i = 0
                while i < len(seq):
                    cand = dict(best)
                    cand[key] = seq[:i] + seq[i + chunk:]
                    if ok(cand):
                        best = cand
                        seq = cand[key]
                        removed = True
                        changed = True
                    else:
                        i += chunk
                if chunk == 1 and not removed:
                    break
                if not removed:
                    n = min(len(seq), n * 2) if len(seq) else 1
                if not seq:
                    break
        simp = getattr(machine, 'simplify', None)
        if simp is not None:
            progress = True
            while progress and time.monotonic() - t0 < budget_s:
                progress = False
                for cand in simp(best):
                    if time.monotonic() - t0 >= budget_s:
                        break
                    if ok(cand):
                        best = cand
                        progress = True
                        changed = True
                        break
    return best


# --------------------------------------------------------------------------- replay
def write_replay(prop: str, tier: str, case: dict, viol: dict, digest: str) -> str:
    d = os.path.join(REPLAY_DIR, prop)
    os.makedirs(d, exist_ok=True)
    clause = ''.join(ch if ch.isalnum() or ch in '-_' else '_' for ch in viol['clause'])
    name = f"{case.get('seed', 0) or 0:016x}-{clause}-{H(viol['fp']) & 0xffffff:06x}.json"
    path = os.path.join(d, name)
    rec = {
        'property': prop, 'tier': tier, 'seed': case.get('seed'),
        'case': case, 'violation': viol, 'digest': digest, 'repo_head': repo_head(),
    }
    with open(path, 'w') as f:
        f.write(jdump(rec))
        f.write('\n')
    return path


def repo_head() -> str:
    try:
        r = subprocess.run(['git', '-C', REPO, 'rev-parse', 'HEAD'], capture_output=True, text=True, timeout=20)
        head = r.stdout.strip()
        r2 = subprocess.run(['git', '-C', REPO, 'status', '--porcelain', '--untracked-files=no'],
                            capture_output=True, text=True, timeout=20)
        return head + ('+dirty' if r2.stdout.strip() else '')
    except Exception:
        return 'unknown'


def replay_file(path: str) -> int:
    """Re-execute the step list of a replay file; exit 1 (and print VIOLATION) iff the
    same fingerprint fails again."""
    with open(path) as f:
        rec = json.load(f)
    prop = rec['property']
    machine = load_machine(prop)
    out = execute(machine, rec['case'])
    fp = rec['violation']['fp']
    hit = [v for v in out.viol if v['fp'] == fp]
    dg = digest_of(out.log)
    print(f'replay property={prop} fingerprint={fp} digest={dg} recorded_digest={rec.get("digest")}')
    for v in out.viol:
        print(f'  observed: {v["fp"]} :: {v["detail"][:600]}')
    if hit:
        print(f'VIOLATION property={prop} replay={path}')
        return 1
    print('replay did not reproduce the recorded violation on this tree')
    return 0


def run_replay_subprocess(path: str):
    r = subprocess.run([sys.executable, os.path.join(VERIF, 'run.py'), 'replay', path],
                       capture_output=True, text=True, timeout=600)
    dg = None
    for line in r.stdout.splitlines():
        if line.startswith('replay property='):
            for tok in line.split():
                if tok.startswith('digest='):
                    dg = tok[len('digest='):]
    return r.returncode, dg, r.stdout + r.stderr


# --------------------------------------------------------------------------- determinism self-test
def digests_for(prop: str, tier: str, root_seed: int, indices: list) -> list:
    machine = load_machine(prop)
    res = []
    for idx in indices:
        seed = H(root_seed, prop, tier, idx)
        case = machine.gen(Rng(seed), tier, idx)
        case['seed'] = seed
        out = execute(machine, case)
        res.append(digest_of([digest_of(case), out.log, sorted(v['fp'] for v in out.viol)]))
    return res


def determinism_selftest(prop: str, tier: str, root_seed: int, indices: list) -> dict:
    a = digests_for(prop, tier, root_seed, indices)
    b = digests_for(prop, tier, root_seed, indices)
    if a != b:
        bad = [i for i, (x, y) in zip(indices, zip(a, b)) if x != y]
        raise HarnessError(f'non-deterministic within one process: run indices {bad}')
    env = dict(os.environ)
    env['VERIF_WORKERS'] = '1'
    cmd = [sys.executable, os.path.join(VERIF, 'run.py'), 'digest', prop, tier, str(root_seed),
           ','.join(map(str, indices))]
    r = subprocess.run(cmd, capture_output=True, text=True, timeout=900, env=env)
    if r.returncode != 0:
        raise HarnessError(f'digest subprocess failed: {r.stderr[-2000:]}')
    c = r.stdout.strip().splitlines()[-1].split(',')
    if c != a:
        bad = [i for i, (x, y) in zip(indices, zip(a, c)) if x != y]
        raise HarnessError(f'non-deterministic across fresh interpreters: run indices {bad}')
    # informational: another hash seed (str-hash order of sets inside the library)
    env2 = dict(env)
    env2['PYTHONHASHSEED'] = '12345'
    env2['VERIF_KEEP_HASHSEED'] = '1'
    r2 = subprocess.run(cmd, capture_output=True, text=True, timeout=900, env=env2)
    other = r2.returncode == 0 and r2.stdout.strip().splitlines()[-1].split(',') == a
    return {'seeds_checked': len(indices), 'same_process_twice': True, 'fresh_interpreter': True,
            'other_hashseed_identical': bool(other)}


# --------------------------------------------------------------------------- check driver
TIER_DEFAULT_BUDGET = {'quick': 40.0, 'thorough': 900.0}


def check(prop: str, tier: str) -> int:
    t0 = time.monotonic()
    root_seed = int(os.environ.get('VERIF_SEED', '0') or 0)
    workers = int(os.environ.get('VERIF_WORKERS', '0') or 0) or min(16, os.cpu_count() or 1)
    install_determinism_seams()
    machine = load_machine(prop)
    budget = float(os.environ.get('VERIF_BUDGET_S', '0') or 0) or \
        getattr(machine, 'BUDGET_S', TIER_DEFAULT_BUDGET)[tier]
    total = int(os.environ.get('VERIF_RUNS', '0') or 0) or machine.RUNS[tier]
    batch = getattr(machine, 'BATCH', {'quick': 50, 'thorough': 200})[tier]
    known = known_findings()
    known_fps = [fp for (p, fp) in known if p == prop]

    agg = {
        'n': 0, 'nt': set(), 'stats': collections.Counter(), 'states': set(), 'steps': 0,
        'known': collections.Counter(), 'unknown': [], 'samples': [], 'errors': [],
    }
    truncated = False
    ctx = multiprocessing.get_context('fork')
    batches = [list(range(i, min(i + batch, total))) for i in range(0, total, batch)]
    with ProcessPoolExecutor(max_workers=workers, mp_context=ctx, initializer=_worker_init) as pool:
        pending = {}
        pos = 0

        def submit_next():
            nonlocal truncated, pos
            if pos >= len(batches):
                return False
            if time.monotonic() - t0 > budget:
                truncated = True
                return False
            b = batches[pos]
            pos += 1
            fut = pool.submit(_worker_batch, prop, tier, root_seed, b, known_fps)
            pending[fut] = b
            return True

        for _ in range(workers * 2):
            if not submit_next():
                break
        while pending:
            done = next(as_completed(list(pending)))
            pending.pop(done)
            try:
                r = done.result()
            except Exception as exc:
                raise HarnessError(f'worker died: {exc!r}')
            agg['n'] += r['n']
            agg['nt'].update(r['nontrivial_digests'])
            agg['stats'].update(r['stats'])
            agg['states'].update(r['states'])
            agg['steps'] += r['steps']
            agg['known'].update(r['known'])
            for u in r['unknown']:
                if len(agg['unknown']) < 6 and not any(x['viol']['fp'] == u['viol']['fp'] for x in agg['unknown']):
                    agg['unknown'].append(u)
            if len(agg['samples']) < 3:
                agg['samples'].extend(r['samples'][:3 - len(agg['samples'])])
            agg['errors'].extend(r['errors'])
            if not agg['errors'] and len(agg['unknown']) < 6:
                submit_next()
    if agg['errors']:
        e = agg['errors'][0]
        sys.stderr.write(f"HARNESS ERROR in run index {e['index']} seed {e['seed']}:\n{e['tb']}\n")
        return 2

    # ---- violations
    exit_code = 0
    reported = []
    not_reproduced = []
    if agg['unknown']:
        install_determinism_seams()
        for u in agg['unknown'][:3]:
            small = shrink(machine, u['case'], u['viol']['fp'], budget_s=getattr(machine, 'SHRINK_S', 30.0))
            out = execute(machine, small)
            viol = next((v for v in out.viol if v['fp'] == u['viol']['fp']), u['viol'])
            path = write_replay(prop, tier, small, viol, digest_of(out.log))
            rc, dg, text = run_replay_subprocess(path)
            if rc != 1:
                # seen in-process but not from a fresh interpreter: state carried over from earlier runs of this worker
                # (e.g. a process-global cache inside the library).  Never reported as a VIOLATION; a harness error unless
                # another violation of this batch does replay.
                not_reproduced.append((viol, path, rc, text))
                continue
            print(f'violation: {viol["fp"]} :: {viol["detail"][:500]}')
            print(f'VIOLATION property={prop} replay={path}')
            reported.append({'fp': viol['fp'], 'replay': path})
            exit_code = 1
        for viol, path, rc, text in not_reproduced:
            if exit_code == 1:
                print(f'note: {viol["fp"]} was also observed but does not replay in a fresh process (depends on state left by earlier runs); replay kept at {path}')
            else:
                sys.stderr.write(f'HARNESS ERROR: violation {viol["fp"]} did not reproduce in a fresh process '
                                 f'(rc={rc}); replay kept at {path}\n{text[-1500:]}\n')
                return 2
    for fp, n in sorted(agg['known'].items()):
        ent = known[(prop, fp)]
        print(f'KNOWN-FINDING: property={prop} {fp} :: {ent.get("what", "")} (hit in {n} runs)')

    # ---- determinism self-test (a mismatch is a harness error)
    if exit_code == 0:
        k = {'quick': 6, 'thorough': 24}[tier]
        try:
            det = determinism_selftest(prop, tier, root_seed, list(range(0, min(k, total))))
        except HarnessError as exc:
            sys.stderr.write(f'HARNESS ERROR: {exc}\n')
            return 2
    else:
        det = {'skipped': 'violation reported'}

    # ---- evidence
    wall = time.monotonic() - t0
    samples = agg['samples'] or [{'note': 'no non-trivial sample recorded'}]
    cov = {
        'evaluations': agg['n'],
        'distinct_nontrivial': len(agg['nt']),
        'rule': machine.RULE,
        'samples': samples[:3],
        'runs_per_hour': int(agg['n'] / max(wall, 1e-6) * 3600),
        'seeds': {'root': root_seed, 'derivation': 'blake2b(root, property, tier, run index)',
                  'run_indices': [0, total - 1], 'budget_truncated': truncated},
        'sim_steps_total': agg['steps'],
        'distinct_states': len(agg['states']),
        'distinct_states_measure': getattr(machine, 'STATE_MEASURE', ''),
        'probes': {k: v for k, v in sorted(agg['stats'].items())},
        'real_vs_stub': getattr(machine, 'REAL_VS_STUB', {}),
        'determinism_selftest': det,
        'known_findings_seen': {fp: n for fp, n in sorted(agg['known'].items())},
        'violations_reported': reported,
        'workers': workers,
        'repo_head': repo_head(),
    }
    if hasattr(machine, 'extra_evidence'):
        cov.update(machine.extra_evidence(agg, tier))
    ev = {
        'property_id': prop, 'tier': tier, 'seed': root_seed, 'level': machine.LEVEL,
        'coverage': cov, 'assumptions': list(getattr(machine, 'ASSUMPTIONS', [])),
        'wall_s': round(wall, 2), 'violations': len(reported),
    }
    os.makedirs(EVIDENCE_DIR, exist_ok=True)
    tmp = os.path.join(EVIDENCE_DIR, f'.{prop}.json.tmp')
    with open(tmp, 'w') as f:
        json.dump(ev, f, indent=1, sort_keys=True, default=_json_default)
        f.write('\n')
    os.replace(tmp, os.path.join(EVIDENCE_DIR, f'{prop}.json'))
    print(f'{prop} {tier}: runs={agg["n"]} nontrivial_distinct={len(agg["nt"])} states={len(agg["states"])} '
          f'known={sum(agg["known"].values())} new_violations={len(reported)} wall={wall:.1f}s'
          + (' (budget truncated)' if truncated else ''))
    return exit_code

"""E2 — disk engine.  An in-memory file system mounted at MOUNT and installed behind
builtins.open / io.open / os.* for paths below the mount; everything else passes through.

Real code above the seam: CPython's BufferedReader/Writer/Random and TextIOWrapper, pathlib,
zipfile, and all of srctools.  Stub: the kernel and the medium (this file).

Every entry point that reaches the "kernel" is a *seam operation*: it gets the next index of
the run's disk-op counter, is logged, is a yield point for multi-writer schedules, and is where
the fault plan is consulted (crash before/after/torn, one-shot or sticky OSError, short raw
read/write, EINTR).  Closes that come from finalizers are neither numbered nor fault points.
"""
from __future__ import annotations

import builtins
import errno
import io
import os
import stat as statmod
import threading

MOUNT = '/simfs'


class SimKill(BaseException):
    """The simulated process was killed: nothing after this instant reaches the disk."""


class _File:
    __slots__ = ('data', 'mtime', 'ino', 'nlink')

    def __init__(self, ino):
        self.data = bytearray()
        self.mtime = 0
        self.ino = ino
        self.nlink = 1


class _Dir:
    __slots__ = ('mtime', 'ino')

    def __init__(self, ino):
        self.mtime = 0
        self.ino = ino


ERRNO_FOR = {
    'open_create': ['EACCES', 'ENOSPC', 'EMFILE', 'EROFS', 'EIO'],
    'open_read': ['EACCES', 'EMFILE', 'EIO'],
    'write': ['ENOSPC', 'EIO', 'EDQUOT'],
    'read': ['EIO'],
    'mkdir': ['EACCES', 'ENOSPC', 'EROFS'],
    'unlink': ['EACCES', 'EIO', 'EROFS'],
    'replace': ['EACCES', 'EIO', 'EROFS', 'ENOSPC'],
    'stat': ['EACCES', 'EIO'],
    'close': ['EIO'],
    'truncate': ['EIO', 'ENOSPC'],
    'scandir': ['EACCES', 'EIO'],
    'rmdir': ['EACCES'],
}
MUTATING = {'open_create', 'write', 'mkdir', 'unlink', 'replace', 'truncate', 'rmdir', 'close'}
STICKY_KINDS = {'ENOSPC': {'open_create', 'write', 'mkdir', 'truncate'},
                'EROFS': {'open_create', 'write', 'mkdir', 'truncate', 'unlink', 'replace', 'rmdir'},
                'EIO': {'open_create', 'open_read', 'write', 'read', 'truncate'}}


class SimFS:
    """One simulated disk.  Use `with fs:` to install it as the current one."""

    def __init__(self, plan=None, linesep='\n'):
        self.nodes = {MOUNT: _Dir(1)}
        self._ino = 1
        self.clock = 0
        self.cwd = None              # simulated cwd (a path under MOUNT) or None
        self.linesep = linesep       # host newline convention for text-mode opens without newline=
        self.plan = plan or {}
        self.op = 0                  # seam-operation counter
        self.log = []                # (index, task, kind, path, size, outcome)
        self.frozen = False
        self.fired = []              # faults that actually fired: (index, kind, what)
        self.open_raws = []
        self.task = 'main'
        self.yield_hook = None       # called at every seam op (multi-writer schedules)
        self.sticky = None           # (errno name) once a sticky fault started
        self.monitor = None          # optional callable(kind, path) for seam monitors (C18)
        self.blksize = 4096          # st_blksize: default buffer size of buffered opens (a swarm knob)

    # ------------------------------------------------------------------ install
    def __enter__(self):
        install_patches()
        _STATE.stack.append(self)
        return self

    def __exit__(self, *exc):
        _STATE.stack.remove(self)
        for raw in list(self.open_raws):
            raw._force_close()
        return False

    # ------------------------------------------------------------------ paths
    def resolve(self, path):
        """Absolute normalised posix path if the argument lies under the mount, else None."""
        if isinstance(path, int):
            return None
        try:
            p = os.fspath(path)
        except TypeError:
            return None
        if isinstance(p, bytes):
            p = p.decode('utf-8', 'surrogateescape')
        if not p.startswith('/'):
            if self.cwd is None:
                return None
            p = self.cwd + '/' + p
        elif not (p == MOUNT or p.startswith(MOUNT + '/')):
            return None
        parts = []
        for seg in p.split('/'):
            if seg in ('', '.'):
                continue
            if seg == '..':
                if parts:
                    parts.pop()
                continue
            parts.append(seg)
        norm = '/' + '/'.join(parts)
        if norm == MOUNT or norm.startswith(MOUNT + '/'):
            return norm
        return '\0outside:' + norm     # escaped the mount through '..': treated as nonexistent

    def _ino_next(self):
        self._ino += 1
        return self._ino

    def _tick(self):
        self.clock += 1
        return self.clock

    # ------------------------------------------------------------------ seam
    def seam(self, kind, path, size=0):
        """Number the operation, give other writers a chance to run, apply the fault plan.
        Returns a dict of modifiers for the operation (short/torn)."""
        if self.yield_hook is not None:
            self.yield_hook(self, kind, path)
        if self.frozen:
            raise SimKill()
        k = self.op
        self.op += 1
        if self.monitor is not None:
            self.monitor(kind, path)
        mods = {}
        plan = self.plan
        crash = plan.get('crash')
        if crash is not None and crash[0] == k:
            how = crash[1]
            if how == 'before':
                self.frozen = True
                self.fired.append((k, kind, 'crash-before'))
                self.log.append((k, self.task, kind, path, size, 'KILL-before'))
                raise SimKill()
            mods['crash'] = how            # 'after' or 'torn'
            mods['frac'] = crash[2] if len(crash) > 2 else 0.5
        err = plan.get('errors', {}).get(k) or plan.get('errors', {}).get(str(k))
        st = plan.get('sticky')
        if st is not None and k >= st[0] and kind in STICKY_KINDS.get(st[1], ()):
            err = st[1]
            self.sticky = st[1]
        if err is not None and kind in ERRNO_FOR and 'crash' not in mods:
            if err == 'EINTR':
                if kind == 'write':
                    self.fired.append((k, kind, 'EINTR'))
                    self.log.append((k, self.task, kind, path, size, 'EINTR'))
                    raise InterruptedError(errno.EINTR, 'simulated EINTR')
            elif err in ERRNO_FOR[kind] or (st is not None and err == st[1]):
                self.fired.append((k, kind, err))
                self.log.append((k, self.task, kind, path, size, err))
                raise OSError(getattr(errno, err), f'simulated {err}', path)
        sw = plan.get('short', {})
        frac = sw.get(k) if k in sw else sw.get(str(k))
        if frac is not None and kind in ('write', 'read'):
            mods['short'] = frac
        self.log.append((k, self.task, kind, path, size, 'ok'))
        return mods

    def after(self, mods, kind):
        """Called when the operation has taken effect."""
        if mods.get('crash') in ('after', 'torn'):
            self.frozen = True
            self.fired.append((self.op - 1, kind, 'crash-' + mods['crash']))
            raise SimKill()

    # ------------------------------------------------------------------ operations
    def _ancestors(self, p):
        """ENOTDIR if an ancestor is a file, ENOENT if one is missing."""
        if p.startswith('\0'):
            raise FileNotFoundError(errno.ENOENT, 'No such file or directory', p)
        parts = p.split('/')
        for i in range(2, len(parts)):
            node = self.nodes.get('/'.join(parts[:i]))
            if node is None:
                raise FileNotFoundError(errno.ENOENT, 'No such file or directory', p)
            if not isinstance(node, _Dir):
                raise NotADirectoryError(errno.ENOTDIR, 'Not a directory', p)

    def _parent_ok(self, p):
        self._ancestors(p)

    def open(self, p, mode, buffering, encoding, errors, newline):
        flags = set(mode)
        creating = bool(flags & set('wxa'))
        binary = 'b' in flags
        if binary and (encoding is not None or newline is not None and False):
            raise ValueError("binary mode doesn't take an encoding argument")
        kind = 'open_create' if creating else 'open_read'
        mods = self.seam(kind, p)
        self._ancestors(p)
        node = self.nodes.get(p)
        if 'x' in flags:
            if node is not None:
                raise FileExistsError(errno.EEXIST, 'File exists', p)
        if isinstance(node, _Dir):
            raise IsADirectoryError(errno.EISDIR, 'Is a directory', p)
        if node is None:
            if not creating:
                self._parent_lookup(p)
                raise FileNotFoundError(errno.ENOENT, 'No such file or directory', p)
            self._parent_ok(p)
            node = _File(self._ino_next())
            node.mtime = self._tick()
            self.nodes[p] = node
        elif 'w' in flags:
            del node.data[:]
            node.mtime = self._tick()
        raw = SimRaw(self, node, p, readable=('r' in flags or '+' in flags),
                     writable=(creating or '+' in flags), append='a' in flags, mode=mode)
        self.open_raws.append(raw)
        self.after(mods, kind)
        if binary:
            if buffering == 0:
                return raw
            size = buffering if buffering and buffering > 1 else self.blksize
            if '+' in flags:
                return io.BufferedRandom(raw, size)
            if creating:
                return io.BufferedWriter(raw, size)
            return io.BufferedReader(raw, size)
        size = buffering if buffering and buffering > 1 else self.blksize
        if '+' in flags:
            buf = io.BufferedRandom(raw, size)
        elif creating:
            buf = io.BufferedWriter(raw, size)
        else:
            buf = io.BufferedReader(raw, size)
        if newline is None and creating and self.linesep != '\n':
            # host convention: '\n' written as os.linesep.  TextIOWrapper(newline=None) consults the
            # real os.linesep, so give it the simulated one explicitly.
            tw = io.TextIOWrapper(buf, encoding or 'utf-8', errors, self.linesep, buffering == 1)
        else:
            tw = io.TextIOWrapper(buf, encoding or 'utf-8', errors, newline, buffering == 1)
        tw.mode = mode
        return tw

    def _parent_lookup(self, p):
        self._ancestors(p)

    def mkdir(self, p):
        mods = self.seam('mkdir', p)
        self._ancestors(p)
        if p in self.nodes:
            raise FileExistsError(errno.EEXIST, 'File exists', p)
        self._parent_ok(p)
        d = _Dir(self._ino_next())
        d.mtime = self._tick()
        self.nodes[p] = d
        self.after(mods, 'mkdir')

    def unlink(self, p):
        mods = self.seam('unlink', p)
        node = self.nodes.get(p)
        if node is None:
            self._parent_lookup(p)
            raise FileNotFoundError(errno.ENOENT, 'No such file or directory', p)
        if isinstance(node, _Dir):
            raise IsADirectoryError(errno.EISDIR, 'Is a directory', p)
        del self.nodes[p]
        node.nlink -= 1
        self.after(mods, 'unlink')

    def rmdir(self, p):
        mods = self.seam('rmdir', p)
        self._ancestors(p)
        node = self.nodes.get(p)
        if node is None:
            raise FileNotFoundError(errno.ENOENT, 'No such file or directory', p)
        if not isinstance(node, _Dir):
            raise NotADirectoryError(errno.ENOTDIR, 'Not a directory', p)
        if any(k.startswith(p + '/') for k in self.nodes):
            raise OSError(errno.ENOTEMPTY, 'Directory not empty', p)
        del self.nodes[p]
        self.after(mods, 'rmdir')

    def replace(self, src, dst):
        mods = self.seam('replace', src + ' -> ' + dst)
        self._ancestors(src)
        self._ancestors(dst)
        node = self.nodes.get(src)
        if node is None:
            raise FileNotFoundError(errno.ENOENT, 'No such file or directory', src)
        if src == dst:
            self.after(mods, 'replace')
            return
        target = self.nodes.get(dst)
        if isinstance(target, _Dir) and src.startswith(dst + '/'):
            raise OSError(errno.ENOTEMPTY, 'Directory not empty', dst)
        if isinstance(node, _Dir):
            if dst.startswith(src + '/'):
                raise OSError(errno.EINVAL, 'Invalid argument', src)
            if target is not None and not isinstance(target, _Dir):
                raise NotADirectoryError(errno.ENOTDIR, 'Not a directory', dst)
            if target is not None and any(k.startswith(dst + '/') for k in self.nodes):
                raise OSError(errno.ENOTEMPTY, 'Directory not empty', dst)
            moved = {k: v for k, v in self.nodes.items() if k == src or k.startswith(src + '/')}
            for k in moved:
                del self.nodes[k]
            for k, v in moved.items():
                self.nodes[dst + k[len(src):]] = v
        else:
            if isinstance(target, _Dir):
                raise IsADirectoryError(errno.EISDIR, 'Is a directory', dst)
            if src != dst:
                del self.nodes[src]
                if target is not None:
                    target.nlink -= 1
                self.nodes[dst] = node
        self.after(mods, 'replace')

    def stat(self, p):
        self.seam('stat', p)
        node = self.nodes.get(p)
        if node is None:
            self._parent_lookup(p)
            raise FileNotFoundError(errno.ENOENT, 'No such file or directory', p)
        return self._stat_of(node)

    def _stat_of(self, node):
        if isinstance(node, _Dir):
            mode, size = statmod.S_IFDIR | 0o755, 4096
        else:
            mode, size = statmod.S_IFREG | 0o644, len(node.data)
        t = node.mtime
        return os.stat_result((mode, node.ino, 99, 1, 0, 0, size, t, t, t))

    def listdir(self, p):
        self.seam('scandir', p)
        self._ancestors(p)
        node = self.nodes.get(p)
        if node is None:
            raise FileNotFoundError(errno.ENOENT, 'No such file or directory', p)
        if not isinstance(node, _Dir):
            raise NotADirectoryError(errno.ENOTDIR, 'Not a directory', p)
        pre = p + '/'
        return sorted(k[len(pre):] for k in self.nodes if k.startswith(pre) and '/' not in k[len(pre):])

    # ------------------------------------------------------------------ harness-side helpers (not seam ops)
    def put(self, path, data: bytes):
        parts = path.split('/')
        for i in range(2, len(parts)):
            d = '/'.join(parts[:i])
            if d and d not in self.nodes:
                self.nodes[d] = _Dir(self._ino_next())
        f = _File(self._ino_next())
        f.data[:] = data
        f.mtime = self._tick()
        self.nodes[path] = f

    def put_dir(self, path):
        parts = path.split('/')
        for i in range(2, len(parts) + 1):
            d = '/'.join(parts[:i])
            if d and d not in self.nodes:
                self.nodes[d] = _Dir(self._ino_next())

    def get(self, path):
        node = self.nodes.get(path)
        return bytes(node.data) if isinstance(node, _File) else None

    def snapshot(self) -> dict:
        """path -> bytes (files) / None (directories): what is on the disk right now."""
        return {k: (bytes(v.data) if isinstance(v, _File) else None) for k, v in sorted(self.nodes.items())}

    def restart(self):
        """After a crash: drop open descriptions, lift the freeze, clear the fault plan."""
        for raw in list(self.open_raws):
            raw._force_close()
        self.frozen = False
        self.plan = {}
        self.sticky = None


class SimRaw(io.RawIOBase):
    """The raw file under CPython's buffered/text layers."""

    def __init__(self, fs, node, path, readable, writable, append, mode):
        super().__init__()
        self.fs = fs
        self.node = node
        self.name = path
        self.mode = mode.replace('t', '') if 'b' in mode else mode
        self._r = readable
        self._w = writable
        self._append = append
        self._pos = len(node.data) if append else 0
        self._from_del = False
        self._dead = False

    def readable(self):
        return self._r

    def writable(self):
        return self._w

    def seekable(self):
        return True

    def fileno(self):
        raise io.UnsupportedOperation('simulated file has no descriptor')

    def isatty(self):
        return False

    def readinto(self, b):
        if self.closed:
            raise ValueError('I/O operation on closed file')
        if not self._r:
            raise io.UnsupportedOperation('not readable')
        mods = self.fs.seam('read', self.name, len(b))
        n = len(b)
        if 'short' in mods and n > 1:
            n = max(1, int(n * mods['short']))
        chunk = self.node.data[self._pos:self._pos + n]
        b[:len(chunk)] = chunk
        self._pos += len(chunk)
        self.fs.after(mods, 'read')
        return len(chunk)

    def write(self, b):
        if self.closed:
            raise ValueError('I/O operation on closed file')
        if not self._w:
            raise io.UnsupportedOperation('not writable')
        data = bytes(b)
        mods = self.fs.seam('write', self.name, len(data))
        n = len(data)
        if mods.get('crash') == 'torn':
            n = int(n * mods.get('frac', 0.5))
        elif 'short' in mods and n > 1:
            n = max(1, int(n * mods['short']))
        if self._append:
            self._pos = len(self.node.data)
        if self._pos > len(self.node.data):
            self.node.data.extend(b'\0' * (self._pos - len(self.node.data)))
        self.node.data[self._pos:self._pos + n] = data[:n]
        self._pos += n
        self.node.mtime = self.fs._tick()
        self.fs.after(mods, 'write')
        return n

    def seek(self, off, whence=0):
        if self.closed:
            raise ValueError('I/O operation on closed file')
        if whence == 0:
            new = off
        elif whence == 1:
            new = self._pos + off
        elif whence == 2:
            new = len(self.node.data) + off
        else:
            raise ValueError('bad whence')
        if new < 0:
            raise OSError(errno.EINVAL, 'Invalid argument')
        self._pos = new
        return new

    def tell(self):
        if self.closed:
            raise ValueError('I/O operation on closed file')
        return self._pos

    def truncate(self, size=None):
        if self.closed:
            raise ValueError('I/O operation on closed file')
        if not self._w:
            raise io.UnsupportedOperation('not writable')
        if size is None:
            size = self._pos
        mods = self.fs.seam('truncate', self.name, size)
        if size < len(self.node.data):
            del self.node.data[size:]
        else:
            self.node.data.extend(b'\0' * (size - len(self.node.data)))
        self.node.mtime = self.fs._tick()
        self.fs.after(mods, 'truncate')
        return size

    def close(self):
        if self.closed:
            return
        if self._from_del or self._dead:
            self._finish()
            return
        try:
            mods = self.fs.seam('close', self.name)
            self.fs.after(mods, 'close')
        finally:
            self._finish()

    def _finish(self):
        try:
            self.fs.open_raws.remove(self)
        except ValueError:
            pass
        super().close()

    def _force_close(self):
        self._dead = True
        try:
            if not self.closed:
                self._finish()
        except Exception:
            pass

    def __del__(self):
        # a close triggered by garbage collection is not a seam operation (its moment is not scheduled)
        self._from_del = True
        try:
            super().__del__()
        except BaseException:
            pass


# ---------------------------------------------------------------------- patches
class _State:
    stack: list = []
    installed = False
    orig: dict = {}


_STATE = _State()
_tls = threading.local()


def current():
    return _STATE.stack[-1] if _STATE.stack else None


def _route(path):
    fs = current()
    if fs is None:
        return None, None
    p = fs.resolve(path)
    if p is None:
        return None, None
    return fs, p


class _SimDirEntry:
    def __init__(self, fs, dirpath, name, given):
        self._fs = fs
        self.name = name
        self._p = dirpath + '/' + name
        self.path = os.path.join(given, name)

    def __fspath__(self):
        return self.path

    def is_dir(self, *, follow_symlinks=True):
        return isinstance(self._fs.nodes.get(self._p), _Dir)

    def is_file(self, *, follow_symlinks=True):
        return isinstance(self._fs.nodes.get(self._p), _File)

    def is_symlink(self):
        return False

    def is_junction(self):
        return False

    def inode(self):
        return self._fs.nodes[self._p].ino

    def stat(self, *, follow_symlinks=True):
        node = self._fs.nodes.get(self._p)
        if node is None:
            raise FileNotFoundError(errno.ENOENT, 'No such file or directory', self.path)
        return self._fs._stat_of(node)

    def __repr__(self):
        return f'<SimDirEntry {self.name!r}>'


class _SimScandir:
    def __init__(self, entries):
        self._it = iter(entries)

    def __iter__(self):
        return self

    def __next__(self):
        return next(self._it)

    def __enter__(self):
        return self

    def __exit__(self, *a):
        return False

    def close(self):
        self._it = iter(())


def install_patches():
    if _STATE.installed:
        return
    _STATE.installed = True
    o = _STATE.orig
    o['open'] = builtins.open
    o['io_open'] = io.open
    for name in ('mkdir', 'unlink', 'remove', 'replace', 'rename', 'stat', 'lstat', 'scandir', 'listdir', 'rmdir',
                 'getcwd', 'access', 'readlink'):
        o[name] = getattr(os, name)

    def sim_open(file, mode='r', buffering=-1, encoding=None, errors=None, newline=None, closefd=True, opener=None):
        fs, p = _route(file)
        if fs is None:
            return o['open'](file, mode, buffering, encoding, errors, newline, closefd, opener)
        return fs.open(p, mode, buffering, encoding, errors, newline)

    def sim_mkdir(path, mode=0o777, *, dir_fd=None):
        fs, p = _route(path)
        if fs is None:
            return o['mkdir'](path, mode, dir_fd=dir_fd)
        return fs.mkdir(p)

    def sim_unlink(path, *, dir_fd=None):
        fs, p = _route(path)
        if fs is None:
            return o['unlink'](path, dir_fd=dir_fd)
        return fs.unlink(p)

    def sim_replace(src, dst, *, src_dir_fd=None, dst_dir_fd=None):
        fs, p = _route(src)
        fs2, q = _route(dst)
        if fs is None and fs2 is None:
            return o['replace'](src, dst, src_dir_fd=src_dir_fd, dst_dir_fd=dst_dir_fd)
        if fs is None or fs2 is None:
            raise OSError(errno.EXDEV, 'Invalid cross-device link', os.fspath(src))
        return fs.replace(p, q)

    def sim_stat(path, *, dir_fd=None, follow_symlinks=True):
        fs, p = _route(path)
        if fs is None:
            return o['stat'](path, dir_fd=dir_fd, follow_symlinks=follow_symlinks)
        return fs.stat(p)

    def sim_lstat(path, *, dir_fd=None):
        fs, p = _route(path)
        if fs is None:
            return o['lstat'](path, dir_fd=dir_fd)
        return fs.stat(p)

    def sim_scandir(path='.'):
        fs, p = _route(path)
        if fs is None:
            return o['scandir'](path)
        given = os.fspath(path)
        return _SimScandir([_SimDirEntry(fs, p, n, given) for n in fs.listdir(p)])

    def sim_listdir(path='.'):
        fs, p = _route(path)
        if fs is None:
            return o['listdir'](path)
        return fs.listdir(p)

    def sim_rmdir(path, *, dir_fd=None):
        fs, p = _route(path)
        if fs is None:
            return o['rmdir'](path, dir_fd=dir_fd)
        return fs.rmdir(p)

    def sim_getcwd():
        fs = current()
        if fs is not None and fs.cwd is not None:
            return fs.cwd
        return o['getcwd']()

    def sim_access(path, mode, *, dir_fd=None, effective_ids=False, follow_symlinks=True):
        fs, p = _route(path)
        if fs is None:
            return o['access'](path, mode, dir_fd=dir_fd, effective_ids=effective_ids, follow_symlinks=follow_symlinks)
        return p in fs.nodes

    def sim_readlink(path, *, dir_fd=None):
        fs, p = _route(path)
        if fs is None:
            return o['readlink'](path, dir_fd=dir_fd)
        raise OSError(errno.EINVAL, 'Invalid argument', os.fspath(path))

    builtins.open = sim_open
    io.open = sim_open
    os.mkdir = sim_mkdir
    os.unlink = sim_unlink
    os.remove = sim_unlink
    os.replace = sim_replace
    os.rename = sim_replace
    os.stat = sim_stat
    os.lstat = sim_lstat
    os.scandir = sim_scandir
    os.listdir = sim_listdir
    os.rmdir = sim_rmdir
    os.getcwd = sim_getcwd
    os.access = sim_access
    os.readlink = sim_readlink

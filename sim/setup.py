"""`run.py setup`: offline build step — nothing to compile; verify imports and directories."""
from __future__ import annotations

import os
import sys

from sim import core


def main() -> int:
    os.makedirs(core.EVIDENCE_DIR, exist_ok=True)
    os.makedirs(core.REPLAY_DIR, exist_ok=True)
    core.check_imports()
    import srctools
    from srctools import tokenizer, math as smath
    print('srctools from', srctools.__file__)
    print('python tokenizer twin in use:', tokenizer.Tokenizer is tokenizer.Py_Tokenizer)
    print('python math twin in use:', smath.Vec is smath.Py_Vec)
    from tools import fidelity
    return fidelity.main(400)


def selftest() -> int:
    from tools import fidelity
    return fidelity.main(6000)

"""Determinism seams installed at process start (DESIGN.md 3.2) and the per-run reset of
process-global library state (section 1, item 5).  Everything here is applied to the
*imported* library from outside; nothing is changed in /repo."""
from __future__ import annotations

import itertools

_installed = False
_serial = itertools.count(1)


def install() -> None:
    global _installed
    if _installed:
        return
    _installed = True
    import sys
    sys.unraisablehook = lambda unraisable: None   # leaked simulated files are closed by finalizers; keep stderr clean
    from srctools import vmf

    # CopySet[Entity] iteration order follows hash(); Entity uses identity hashing, i.e. heap
    # addresses.  Hash on a serial handed out the first time an entity is hashed (which is a
    # deterministic moment of a deterministic run).  Equality stays identity.
    def __hash__(self):
        d = self.__dict__
        try:
            return d['_verif_serial']
        except KeyError:
            d['_verif_serial'] = n = next(_serial)
            return n

    vmf.Entity.__hash__ = __hash__


def reset_serials() -> None:
    global _serial
    _serial = itertools.count(1)


def reset_library_state(reset_fgd: bool = False) -> None:
    reset_serials()
    import sys
    fgd = sys.modules.get('srctools.fgd')
    if fgd is not None and reset_fgd:
        if hasattr(fgd, '_ENGINE_DB'):
            fgd._ENGINE_DB = None
    inst = sys.modules.get('srctools.instancing')
    if inst is not None and hasattr(inst, '_UNKNOWN_KV'):
        try:
            inst._UNKNOWN_KV.clear()
        except Exception:
            pass

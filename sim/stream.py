"""E1 — stream engine: delivery schedules of a text to code that consumes an iterable of
str or a text file object.  The producer is the stub; the consumer (Tokenizer, parsers,
CPython's TextIOWrapper/BufferedReader) is real code."""
from __future__ import annotations

import io


class SimRawReader(io.RawIOBase):
    """A raw byte source with scheduled short reads (legal for raw I/O)."""

    def __init__(self, data: bytes, read_sizes=None, name='sim.txt') -> None:
        super().__init__()
        self._data = data
        self._pos = 0
        self._sizes = list(read_sizes or [])
        self._k = 0
        self.name = name
        self.reads = 0

    def readable(self):
        return True

    def readinto(self, b):
        n = len(b)
        if self._sizes:
            n = min(n, max(1, self._sizes[self._k % len(self._sizes)]))
            self._k += 1
        chunk = self._data[self._pos:self._pos + n]
        b[:len(chunk)] = chunk
        self._pos += len(chunk)
        self.reads += 1
        return len(chunk)


def translate_newlines(text: str) -> str:
    """What universal-newline text mode (newline=None) turns a text into."""
    return text.replace('\r\n', '\n').replace('\r', '\n')


def split_at(text: str, cuts) -> list:
    cuts = sorted({c for c in cuts if 0 < c < len(text)})
    pieces = []
    prev = 0
    for c in cuts:
        pieces.append(text[prev:c])
        prev = c
    pieces.append(text[prev:])
    return pieces


def line_cuts(text: str) -> list:
    pos = 0
    cuts = []
    for ln in text.splitlines(keepends=True):
        pos += len(ln)
        cuts.append(pos)
    return cuts


class Delivery:
    """Materialises a delivery schedule.  `faulted` tells whether the decode fault fired."""

    def __init__(self, text: str, sched: dict) -> None:
        self.sched = sched
        self.mode = sched.get('mode', 'str')
        trunc = sched.get('truncate')
        if trunc is not None:
            text = text[:trunc]
        self.text = text            # the text actually delivered (after truncation)
        self.ref_text = text        # what a single-string reference run must be given
        self.faulted = False
        self.chunks_delivered = 0
        self.fault_at = sched.get('decode_fault')
        self.pieces = None
        if self.mode == 'str':
            pass
        elif self.mode in ('chunks', 'lines'):
            cuts = line_cuts(text) if self.mode == 'lines' else sched.get('cuts', [])
            pieces = split_at(text, cuts)
            empties = sorted(sched.get('empties', []), reverse=True)
            for e in empties:
                pieces.insert(min(e, len(pieces)), '')
            self.pieces = pieces
        elif self.mode == 'file':
            nl = sched.get('newline', '')
            if nl is None:
                self.ref_text = translate_newlines(text)
        else:
            raise ValueError(self.mode)

    def delivered_prefix(self) -> str:
        """Text handed over before the decode fault fired (chunk modes)."""
        assert self.pieces is not None
        return ''.join(self.pieces[:self.fault_at])

    def source(self):
        if self.mode == 'str':
            return self.text
        if self.mode in ('chunks', 'lines'):
            return self._gen()
        enc = self.sched.get('encoding', 'utf-8')
        data = self.text.encode(enc, 'surrogatepass')
        if self.fault_at is not None:
            k = min(self.fault_at, len(data))
            data = data[:k] + b'\xff' + data[k:]
        self.raw = SimRawReader(data, self.sched.get('read_sizes'), name=self.sched.get('name', 'sim.txt'))
        buf = io.BufferedReader(self.raw, buffer_size=self.sched.get('bufsize', 8192))
        return io.TextIOWrapper(buf, encoding=enc, newline=self.sched.get('newline', ''))

    def _gen(self):
        for i, p in enumerate(self.pieces):
            if self.fault_at is not None and i == self.fault_at:
                self.faulted = True
                raise UnicodeDecodeError('utf-8', b'\xff', 0, 1, 'simulated decode fault')
            self.chunks_delivered += 1
            yield p
        if self.fault_at is not None and self.fault_at >= len(self.pieces):
            self.faulted = True
            raise UnicodeDecodeError('utf-8', b'\xff', 0, 1, 'simulated decode fault')

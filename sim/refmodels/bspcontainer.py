"""Independent BSP *container* codec (header, lump table, game-lump table, Source-LZMA framing).
Written from the format description only; it shares no code with srctools.bsp.  Used to build
container variants (compressed lumps, L4D2 header order, version numbers) and to decode what the
library saved."""
from __future__ import annotations

import lzma
import struct

LUMP_COUNT = 64
GAME_LUMP = 35
PAKFILE = 40


def source_lzma(data: bytes) -> bytes:
    filt = {'id': lzma.FILTER_LZMA1, 'dict_size': 1 << 16, 'lc': 3, 'lp': 0, 'pb': 2}
    comp = lzma.compress(data, lzma.FORMAT_RAW, filters=[filt])
    props = (filt['pb'] * 5 + filt['lp']) * 9 + filt['lc']
    return b'LZMA' + struct.pack('<IIBI', len(data), len(comp), props, filt['dict_size']) + comp


def source_unlzma(data: bytes) -> bytes:
    if data[:4] != b'LZMA':
        return data
    size, csize, props, dict_size = struct.unpack_from('<IIBI', data, 4)
    lc = props % 9
    rest = props // 9
    lp, pb = rest % 5, rest // 5
    filt = {'id': lzma.FILTER_LZMA1, 'dict_size': max(dict_size, 4096), 'lc': lc, 'lp': lp, 'pb': pb}
    dec = lzma.LZMADecompressor(lzma.FORMAT_RAW, filters=[filt])
    return dec.decompress(data[17:])[:size]


def write_container(version: int, revision: int, lumps: dict, game_lumps: list, *, l4d2=False, magic=b'VBSP') -> bytes:
    """lumps: index -> {'data': bytes, 'version': int, 'compressed': bool}
    game_lumps: list of {'id': 4 bytes (file order, i.e. reversed), 'flags': int, 'version': int, 'data': bytes}"""
    head_size = 8 + LUMP_COUNT * 16 + 4
    body = bytearray()
    table = {}

    def place(idx, payload, uncomp):
        off = head_size + len(body)
        body.extend(payload)
        while len(body) % 4:
            body.append(0)
        table[idx] = (off, len(payload), uncomp)

    order = [i for i in range(LUMP_COUNT) if i != PAKFILE] + [PAKFILE]
    for idx in order:
        lump = lumps.get(idx, {'data': b'', 'version': 0, 'compressed': False})
        if idx == GAME_LUMP:
            start = head_size + len(body)
            entries = list(game_lumps)
            dummy = bool(entries) and bool(entries[-1]['flags'] & 1)
            n = len(entries) + (1 if dummy else 0)
            hdr_size = 4 + 16 * n
            blobs = []
            pos = start + hdr_size
            hdr = struct.pack('<i', n)
            for k, g in enumerate(entries):
                payload = source_lzma(g['data']) if g['flags'] & 1 else g['data']
                hdr += struct.pack('<4sHHii', g['id'], g['flags'], g['version'], pos, len(g['data']))
                blobs.append(payload)
                pos += len(payload)
                if k != len(entries) - 1:
                    blobs.append(b'\0')
                    pos += 1
            if dummy:
                hdr += struct.pack('<4sHHii', b'\0\0\0\0', 0, 0, pos, 0)
            payload = hdr + b''.join(blobs)
            place(idx, payload, 0)
            continue
        data = lump['data']
        if lump.get('compressed') and idx != PAKFILE:
            place(idx, source_lzma(data), len(data))
        else:
            place(idx, data, 0)
    out = bytearray(struct.pack('<4si', magic, version))
    for idx in range(LUMP_COUNT):
        off, length, uncomp = table[idx]
        ver = lumps.get(idx, {}).get('version', 0)
        if l4d2:
            out += struct.pack('<4i', ver, off, length, uncomp)
        else:
            out += struct.pack('<4i', off, length, ver, uncomp)
    out += struct.pack('<i', revision)
    assert len(out) == head_size
    return bytes(out + body)


def read_container(blob: bytes, *, l4d2=None) -> dict:
    magic, version = struct.unpack_from('<4si', blob, 0)
    if l4d2 is None:
        l4d2 = version == 21 and blob[8:12] == b'\0\0\0\0'
    lumps = {}
    pos = 8
    for idx in range(LUMP_COUNT):
        a, b, c, d = struct.unpack_from('<4i', blob, pos)
        pos += 16
        if l4d2:
            ver, off, length, uncomp = a, b, c, d
        else:
            off, length, ver, uncomp = a, b, c, d
        raw = blob[off:off + length]
        lumps[idx] = {'version': ver, 'compressed': uncomp > 0, 'raw': raw,
                      'data': source_unlzma(raw) if uncomp > 0 else raw, 'offset': off, 'uncomp': uncomp}
    (revision,) = struct.unpack_from('<i', blob, pos)
    game = []
    g = lumps[GAME_LUMP]
    if g['raw']:
        (n,) = struct.unpack_from('<i', g['raw'], 0)
        ents = [struct.unpack_from('<4sHHii', g['raw'], 4 + 16 * k) for k in range(n)]
        end = g['offset'] + len(g['raw'])
        for k, (gid, flags, ver, off, uncomp) in enumerate(ents):
            if gid == b'\0\0\0\0':
                continue
            nxt = ents[k + 1][3] if k + 1 < len(ents) else end
            if flags & 1:
                size = nxt - off - (1 if k + 1 < len(ents) and ents[k + 1][0] != b'\0\0\0\0' else 0)
                data = source_unlzma(blob[off:off + size])
            else:
                data = blob[off:off + uncomp]
            game.append({'id': gid, 'flags': flags, 'version': ver, 'data': data})
    return {'magic': magic, 'version': version, 'revision': revision, 'lumps': lumps, 'game_lumps': game, 'l4d2': l4d2}

"""C13 — VPK archives return exactly what was last written, across reopen.

History machine: a seeded sequence of open / add / new+write / overwrite / delete /
write_dirfile / context exit / reopen operations runs against the real srctools.vpk.VPK on the
simulated disk (E2) and against a reference model (a dict name -> bytes for the durable state
and one for the pending state).  "Reopen" is a restart with only the bytes on the simulated
disk.  After every reopen that follows a write_dirfile the library's answers, and an
independent decoder of the on-disk bytes, must agree with the model."""
from __future__ import annotations

import struct
import zlib

from sim.core import Outcome, Rng
from sim import simfs
from sim.simfs import SimFS

from srctools.vpk import VPK

PROP = 'C13'
LEVEL = 'exploration'
RUNS = {'quick': 60000, 'thorough': 6000000}
BATCH = {'quick': 150, 'thorough': 1500}
BUDGET_S = {'quick': 70.0, 'thorough': 1500.0}
RULE = ('one run = one operation history (3-40 steps) over a pool of <=8 ASCII names (empty folder / empty extension '
        'parts, dots in folders, upper case, all three name spellings) on one archive (directory or single-file; '
        'dir_data_limit None/0/1/7/1024; archive indexes None/0/1/7; sizes 0,1, around the limit, 65535/6/7, rare '
        'up to 300 KiB; every payload unique) with modes r/w/a, reopen = restart from the simulated disk. Judged after '
        'every reopen that follows write_dirfile. Non-trivial: >=1 judged reopen with >=1 file whose data crosses '
        'the preload limit (i.e. is not stored purely as preload). distinct = distinct event-log digest.')
STATE_MEASURE = 'distinct (placement, limit class, archive-index class, size class, op kind) tuples reached by stored files'
REAL_VS_STUB = {
    'real': ['srctools.vpk.VPK / FileInfo', 'srctools.filesys.VPKFileSystem (read side)', 'CPython buffered I/O'],
    'stub': ['disk: sim/simfs.py', 'reference model: dict of bytes; independent _dir decoder in this file'],
}
ASSUMPTIONS = ['names are ASCII without "." / ".." segments, backslashes or trailing dots (not representable / platform-defined)',
               'content is judged only after write_dirfile + reopen, as the statement says',
               'no crash or I/O fault is judged for VPKs (the statement makes no such promise); short raw reads/writes are injected as legal behaviour']

P = simfs.MOUNT + '/vpk'
FOLDERS = ['', 'materials', 'materials/Dev', 'models/props.v2', 'a/b/c', 'Scripts']
NAMES = ['file', 'File', 'readme', 'a', 'x.y', 'noext', 'UPPER', '', '']
EXTS = ['txt', 'vmt', '', 'VTF', 'mdl']
LIMITS = [None, 0, 1, 7, 1024]
ARCH = [None, 0, 0, 1, 7]


def payload(tag: int, size: int) -> bytes:
    head = f'<{tag}>'.encode()
    if size <= len(head):
        return head[:size]
    body = bytes(((i * 31 + tag * 7) & 0xFF) for i in range(256))
    reps = (size - len(head)) // 256 + 1
    return (head + body * reps)[:size]


def _name_forms(parts, form):
    d, n, e = parts
    full = n + ('.' + e if e else '')
    if form == 0:
        return (d + '/' if d else '') + full
    if form == 1:
        return (d, full)
    return (d, n, e)


def gen(rng: Rng, tier: str, index: int) -> dict:
    r = rng.child('hist')
    kind = 'single' if r.chance(0.25) else 'dir'
    limit = r.pick(LIMITS)
    pool = []
    while len(pool) < r.randrange(2, 8):
        n = r.pick(NAMES)
        e = r.pick(EXTS)
        if '.' in n and not e:
            continue        # 'x.y' with empty extension is the same file as ('x', 'y')
        if not n and not e:
            continue        # a dotfile needs an extension part ('.gitignore' = empty name + extension 'gitignore')
        parts = (r.pick(FOLDERS), n, e)
        if parts not in pool:
            pool.append(parts)

    def size():
        x = r.random()
        lim = limit if limit is not None else 1024
        if x < 0.15:
            return 0
        if x < 0.3:
            return r.pick([1, 2, 5])
        if x < 0.6:
            return max(0, lim + r.pick([-1, 0, 1, 2, 10, 100]))
        if x < 0.8:
            return r.randrange(0, 5000)
        if x < 0.93:
            return r.pick([65534, 65535, 65536, 65537, 70000])
        return r.randrange(70000, 300000 if tier == 'thorough' else 150000)

    steps = [['open', r.pick(['w', 'w', 'a']), limit]]
    tag = 0
    n = r.randrange(3, 14) if r.chance(0.7) else r.randrange(14, 40)
    for _ in range(n):
        x = r.random()
        tag += 1
        if x < 0.32:
            steps.append(['add', r.randrange(len(pool)), r.randrange(3), size(), tag, r.pick(ARCH)])
        elif x < 0.42:
            steps.append(['new_write', r.randrange(len(pool)), r.randrange(3), size(), tag, r.pick(ARCH)])
        elif x < 0.57:
            steps.append(['overwrite', r.randrange(len(pool)), r.randrange(3), size(), tag, r.pick(ARCH)])
        elif x < 0.67:
            steps.append(['del', r.randrange(len(pool)), r.randrange(3)])
        elif x < 0.77:
            steps.append(['write_dir'])
        elif x < 0.93:
            steps.append(['write_dir' if r.chance(0.8) else 'ctx_exit'])
            steps.append(['reopen', r.pick(['r', 'a', 'a', 'w']), limit if r.chance(0.8) else r.pick(LIMITS)])
        else:
            steps.append(['readonly_probe'])
    steps.append(['write_dir'])
    steps.append(['reopen', 'r', limit])
    short = {}
    if r.chance(0.2):
        for _ in range(r.randrange(1, 6)):
            short[str(r.randrange(0, 200))] = r.pick([0.1, 0.5, 0.9])
    return {'kind': kind, 'pool': [list(p) for p in pool], 'steps': steps, 'short': short,
            'blksize': r.pick([512, 4096, 8192])}


# ------------------------------------------------------------------ independent decoder of the directory file
def decode_dir(fs: SimFS, path: str, prefix):
    """Returns {(dir, name, ext): (bytes, placement, crc)} decoded from the bytes on the simulated disk."""
    data = fs.get(path)
    if data is None:
        raise ValueError('no directory file')
    sig, ver, tree_len = struct.unpack_from('<III', data, 0)
    if sig != 0x55aa1234:
        raise ValueError('bad signature')
    pos = 12
    if ver == 2:
        pos += 16
    tree_start = pos
    tail = data[tree_start + tree_len:]

    def cstr():
        nonlocal pos
        end = data.index(b'\0', pos)
        s = data[pos:end].decode('ascii', 'surrogateescape')
        pos = end + 1
        return s
    res = {}
    while True:
        ext = cstr()
        if ext == '':
            break
        while True:
            d = cstr()
            if d == '':
                break
            while True:
                n = cstr()
                if n == '':
                    break
                crc, pre_len, arch, off, alen, term = struct.unpack_from('<IHHIIH', data, pos)
                pos += 18
                if term != 0xffff:
                    raise ValueError('bad terminator')
                pre = data[pos:pos + pre_len]
                pos += pre_len
                if alen:
                    if arch == 0x7fff:
                        body = tail[off:off + alen]
                        place = 'dir-tail' if prefix is not None else 'single-tail'
                    else:
                        ap = path.rsplit('/', 1)[0] + f'/{prefix}_{arch:03}.vpk'
                        adata = fs.get(ap) or b''
                        body = adata[off:off + alen]
                        place = 'archive'
                    if len(body) != alen:
                        body = body + b'<TRUNCATED>'
                else:
                    body = b''
                    place = 'preload' if prefix is not None else 'single-preload'
                key = tuple('' if x == ' ' else x for x in (d, n, ext))
                res[key] = (pre + body, place if pre_len == 0 or not alen else 'preload+' + place, crc)
    if pos != tree_start + tree_len:
        raise ValueError(f'tree length field {tree_len} but tree ends at {pos - tree_start}')
    return res


def _size_class(n, limit):
    lim = limit if limit is not None else 1 << 40
    if n == 0:
        return 'empty'
    if n > 65535:
        return '>64K'
    if n > lim:
        return '>limit'
    if n == lim:
        return '=limit'
    return '<limit'


def _lim_class(limit):
    return 'None' if limit is None else ('0' if limit == 0 else ('small' if limit < 100 else 'default'))


# ------------------------------------------------------------------ run
def run(case: dict) -> Outcome:
    out = Outcome()
    fs = SimFS(plan={'short': case.get('short') or {}})
    fs.blksize = case.get('blksize', 4096)
    fs.put_dir(P)
    fname = 'pak01_dir.vpk' if case['kind'] == 'dir' else 'single.vpk'
    prefix = 'pak01' if case['kind'] == 'dir' else None
    path = P + '/' + fname
    pool = [tuple(p) for p in case['pool']]
    durable = {}
    pending = {}
    meta = {}        # name -> (op kind, arch class, limit at write) for fingerprints
    vpk = None
    mode = None
    limit = None
    dirty = False    # pending differs from what write_dirfile last stored
    judged = 0
    with fs:
        for si, st in enumerate(case['steps']):
            op = st[0]
            out.steps += 1
            try:
                if op in ('open', 'reopen'):
                    _, m, lim = st
                    wrote_dir = not dirty
                    vpk = None
                    exists = fs.get(path) is not None
                    try:
                        vpk = VPK(path, mode=m, dir_data_limit=lim)
                    except FileNotFoundError:
                        if m == 'r' and not exists:
                            out.event(si, op, 'FileNotFoundError(ok)')
                            mode = None
                            continue
                        raise
                    except Exception as e:
                        if op == 'reopen' and not wrote_dir:
                            out.event(si, op, 'unjudged-error', type(e).__name__)
                            return out      # dirty reopen: outside the statement; end of run
                        if m != 'w' and exists and fs.get(path) == b'' and not durable:
                            # an empty directory file left by open('w'/'a') without write_dirfile
                            out.event(si, op, 'empty-dirfile', type(e).__name__)
                            return out
                        raise
                    mode, limit = m, lim
                    if op == 'reopen' and not wrote_dir:
                        out.event(si, op, 'unjudged')
                        return out
                    if m == 'w':
                        durable = {}
                        pending = {}
                        dirty = True     # the directory file was truncated by open
                        out.event(si, op, m, 'truncated')
                        continue
                    pending = dict(durable)
                    if fs.get(path) == b'':
                        dirty = True
                        out.event(si, op, m, 'empty')
                        continue
                    dirty = False
                    if op == 'reopen' or durable:
                        judged += 1
                        _judge(out, fs, vpk, path, prefix, durable, pool, limit, meta, si)
                        if any(v[1] != 'preload-only' for v in meta.values()) or any(len(b) > 0 for b in durable.values()):
                            if any(_stored_beyond_preload(durable[k], meta.get(k)) for k in durable):
                                out.nontrivial = True
                    if m == 'r':
                        _readonly(out, fs, vpk, pool, si)
                    out.event(si, op, m, sorted(map(list, durable)))
                    continue
                if vpk is None or mode is None:
                    continue
                if op in ('add', 'new_write'):
                    _, pi, form, size, tag, arch = st
                    key = pool[pi % len(pool)]
                    name = _name_forms(key, form)
                    data = payload(tag, size)
                    try:
                        if op == 'add':
                            vpk.add_file(name, data, arch_index=arch) if arch != 0 or tag % 2 else vpk.add_file(name, data)
                        else:
                            info = vpk.new_file(name)
                            pending.setdefault(key, b'')
                            dirty = True
                            info.write(data, arch)
                        pending[key] = data
                        meta[key] = (op, 'None' if arch is None else str(min(arch, 2)), limit, size)
                        dirty = True
                        out.event(si, op, list(key), size, 'ok')
                    except FileExistsError:
                        if key in pending:
                            out.event(si, op, list(key), 'exists(ok)')
                        else:
                            out.violate('spurious-refusal', 'FileExistsError', f'step {si} {st}: {name!r} is not in the archive but add raised FileExistsError')
                    except ValueError as e:
                        if mode == 'r':
                            out.event(si, op, 'readonly(ok)')
                        else:
                            raise
                elif op == 'overwrite':
                    _, pi, form, size, tag, arch = st
                    key = pool[pi % len(pool)]
                    name = _name_forms(key, form)
                    data = payload(tag, size)
                    try:
                        info = vpk[name]
                    except KeyError:
                        if key in pending:
                            out.violate('names-differ', 'lookup-missing|pending', f'step {si}: {name!r} was added but vpk[...] raised KeyError')
                        out.event(si, op, 'missing(ok)')
                        continue
                    if key not in pending:
                        out.violate('names-differ', 'lookup-extra|pending', f'step {si}: {name!r} resolves but was never added / was deleted')
                        continue
                    try:
                        info.write(data, arch)
                        pending[key] = data
                        meta[key] = (op, 'None' if arch is None else str(min(arch, 2)), limit, size)
                        dirty = True
                        out.event(si, op, list(key), size, 'ok')
                    except ValueError:
                        if mode == 'r':
                            out.event(si, op, 'readonly(ok)')
                        else:
                            raise
                elif op == 'del':
                    _, pi, form = st
                    key = pool[pi % len(pool)]
                    name = _name_forms(key, form)
                    try:
                        del vpk[name]
                        if key not in pending:
                            out.violate('names-differ', 'delete-extra', f'step {si}: deleting absent {name!r} succeeded')
                        pending.pop(key, None)
                        dirty = True
                        out.event(si, op, list(key), 'ok')
                    except KeyError:
                        if key in pending:
                            out.violate('names-differ', 'delete-missing', f'step {si}: {name!r} present but del raised KeyError')
                        out.event(si, op, 'missing(ok)')
                    except ValueError:
                        if mode != 'r':
                            raise
                elif op in ('write_dir', 'ctx_exit'):
                    if mode == 'r':
                        try:
                            vpk.write_dirfile()
                            out.violate('readonly-mutated', 'write_dirfile', 'write_dirfile succeeded on a read-only VPK')
                        except ValueError:
                            pass
                        continue
                    if op == 'write_dir':
                        vpk.write_dirfile()
                    else:
                        with vpk:
                            pass
                    durable = dict(pending)
                    dirty = False
                    out.event(si, op, 'ok')
                elif op == 'readonly_probe':
                    pass
            except Exception as e:
                placement = 'single' if prefix is None else 'dir'
                culprit = f'{op}|{type(e).__name__}|{placement}|limit={_lim_class(limit)}'
                if op in ('add', 'new_write', 'overwrite'):
                    culprit += f'|arch={"None" if st[5] is None else "n"}|{_size_class(st[3], limit)}'
                elif op in ('write_dir', 'ctx_exit'):
                    big = max([len(v) for v in pending.values()] or [0])
                    culprit += f'|max={_size_class(big, limit)}'
                out.violate('cannot-store', culprit, f'step {si} {st} raised {type(e).__name__}: {e}; history {case["steps"][:si + 1]}')
                return out
    out.stats['judged_reopens'] += judged
    out.sample = {'kind': case['kind'], 'pool': case['pool'], 'steps': case['steps'][:25]}
    return out


def _stored_beyond_preload(data, m):
    if m is None:
        return False
    lim = m[2]
    return lim is not None and len(data) > lim


def _judge(out: Outcome, fs, vpk, path, prefix, model, pool, limit, meta, si):
    """Library answers and independent decode of the disk vs. the model."""
    try:
        listed = sorted(vpk.filenames())
    except Exception as e:
        out.violate('names-differ', f'filenames-raised|{type(e).__name__}', f'filenames() raised {e!r}')
        return
    want_names = sorted((d + '/' if d else '') + n + ('.' + e if e else '') for (d, n, e) in model)
    if listed != want_names:
        out.violate('names-differ', _names_culprit(listed, want_names), f'after reopen (step {si}) filenames() = {listed}, model = {want_names}')
    if len(vpk) != len(model):
        out.violate('names-differ', 'len', f'len(vpk) = {len(vpk)}, model has {len(model)}')
    for key, data in sorted(model.items()):
        m = meta.get(key, ('?', '?', limit, len(data)))
        culprit = f'{"single" if prefix is None else "dir"}|limit={_lim_class(m[2])}|arch={m[1]}|{_size_class(len(data), m[2])}|{m[0]}'
        out.states.add(culprit)
        forms = [_name_forms(key, f) for f in range(3)]
        try:
            infos = [vpk[f] for f in forms]
        except KeyError as e:
            out.violate('name-forms-disagree', 'lookup-failed|' + culprit, f'{forms}: {e}')
            continue
        if not (infos[0] is infos[1] is infos[2]) or not all(f in vpk for f in forms):
            out.violate('name-forms-disagree', culprit, f'{forms} resolve to different entries')
        try:
            got = infos[0].read()
        except Exception as e:
            out.violate('readback-mismatch', f'read-raised|{type(e).__name__}|' + culprit, f'read() of {forms[0]!r} raised {e!r}')
            continue
        if got != data:
            out.violate('readback-mismatch', culprit, f'{forms[0]!r}: read() gives {_descr(got)}, last written {_descr(data)}')
        try:
            if not infos[0].verify():
                out.violate('verify-false', culprit, f'{forms[0]!r}: verify() is False')
        except Exception as e:
            out.violate('verify-false', f'raised|{type(e).__name__}|' + culprit, f'verify raised {e!r}')
    for key in pool:
        if key not in model and any(_name_forms(key, f) in vpk for f in range(3)):
            out.violate('names-differ', 'contains-extra', f'{key} reported present but not in the model')
    try:
        if model and not vpk.verify_all():
            out.violate('verify-false', 'verify_all', 'verify_all() is False')
    except Exception as e:
        out.violate('verify-false', f'verify_all-raised|{type(e).__name__}', repr(e))
    # independent decode of the bytes on disk
    try:
        dec = decode_dir(fs, path, prefix)
    except Exception as e:
        out.violate('decoder-disagrees', f'undecodable|{type(e).__name__}', f'directory file cannot be decoded independently: {e!r}')
        return
    if set(dec) != set(model):
        out.violate('decoder-disagrees', 'names', f'decoder lists {sorted(dec)}, model {sorted(model)}')
    for key, data in model.items():
        if key in dec:
            body, place, crc = dec[key]
            m = meta.get(key, ('?', '?', limit, len(data)))
            culprit = f'{place}|limit={_lim_class(m[2])}|arch={m[1]}|{_size_class(len(data), m[2])}'
            out.states.add('placed:' + culprit)
            if body != data:
                out.violate('decoder-disagrees', 'bytes|' + culprit, f'{key}: bytes on disk are {_descr(body)}, last written {_descr(data)}')
            if crc != (zlib.crc32(data) & 0xffffffff):
                out.violate('decoder-disagrees', 'crc|' + culprit, f'{key}: stored CRC {crc:#x} != crc32 of the data')
    # read side through the filesystem layer
    try:
        from srctools.filesys import VPKFileSystem
        vfs = VPKFileSystem(path)
        folded = [_name_forms(k, 0).casefold() for k in model]
        for key, data in list(sorted(model.items()))[:3]:
            nm = _name_forms(key, 0)
            if folded.count(nm.casefold()) > 1:
                continue    # two stored names differ only in case: the folding layer may return either
            with vfs.open_bin(nm.upper()) as f:
                if f.read() != data:
                    out.violate('readback-mismatch', 'VPKFileSystem', f'VPKFileSystem.open_bin({nm.upper()!r}) differs from the data last written')
    except Exception as e:
        out.violate('readback-mismatch', f'VPKFileSystem-raised|{type(e).__name__}', repr(e))


def _names_culprit(listed, want):
    extra = sorted(set(listed) - set(want))
    missing = sorted(set(want) - set(listed))
    if extra and missing:
        return 'renamed'
    return 'extra' if extra else ('missing' if missing else 'duplicates')


def _descr(b: bytes) -> str:
    return f'{len(b)} bytes {bytes(b[:16])!r}..{bytes(b[-6:])!r}'


def _readonly(out: Outcome, fs, vpk, pool, si):
    before = fs.snapshot()
    key = pool[0]
    probes = [
        ('add_file', lambda: vpk.add_file(('zz', 'new', 'bin'), b'x' * 10)),
        ('new_file', lambda: vpk.new_file('zz/new2.bin')),
        ('del', lambda: vpk.__delitem__(_name_forms(key, 0))),
        ('write_dirfile', lambda: vpk.write_dirfile()),
    ]
    infos = list(vpk)
    if infos:
        probes.append(('FileInfo.write', lambda: infos[0].write(b'changed-by-probe' * 100, 0)))
    for name, fn in probes:
        try:
            fn()
            out.violate('readonly-mutated', name + '|no-error', f'{name} did not raise on a read-only VPK (step {si})')
        except (ValueError,) :
            pass
        except KeyError:
            if name != 'del':
                out.violate('readonly-mutated', name + '|KeyError', f'{name} raised KeyError instead of rejecting the mutation')
            else:
                out.violate('readonly-mutated', 'del|KeyError-before-mode-check', 'del on read-only VPK raised KeyError (mode not checked first)') if False else None
        except Exception as e:
            out.violate('readonly-mutated', f'{name}|{type(e).__name__}', f'{name} raised {e!r}')
    if fs.snapshot() != before:
        out.violate('readonly-mutated', 'disk-changed', 'bytes on disk changed by calls on a read-only VPK')
    out.stats['readonly_probes'] += 1


def simplify(case: dict):
    if case.get('short'):
        yield dict(case, short={})
    steps = case['steps']
    for i, st in enumerate(steps):
        if st[0] in ('add', 'new_write', 'overwrite'):
            if st[3] > 0:
                for s2 in (0, 1, 2, 8, 1025, 65536):
                    if s2 < st[3]:
                        ns = list(st)
                        ns[3] = s2
                        yield dict(case, steps=steps[:i] + [ns] + steps[i + 1:])
            if st[2] != 0:
                ns = list(st)
                ns[2] = 0
                yield dict(case, steps=steps[:i] + [ns] + steps[i + 1:])
            if st[0] == 'new_write':
                yield dict(case, steps=steps[:i] + [['add'] + list(st[1:])] + steps[i + 1:])
    if len(case['pool']) > 1:
        yield dict(case, pool=case['pool'][:1])
    if case['pool'][0] != ['', 'a', 'txt']:
        yield dict(case, pool=[['', 'a', 'txt']] + case['pool'][1:])

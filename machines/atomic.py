"""C12 — atomic file replacement: old or new contents, never a mixture.

System under simulation: srctools.AtomicWriter (bytes and text mode, directly with a scripted
body) and BSP.save on top of it, running on the E2 disk engine.  A run is one *workload*
(destination state, stale temp files, body script, one or two sessions on the same writer
object, or two writers interleaved); its steps are the *fault plans* applied to it.  With
plans=None the run enumerates the complete single-fault space of that workload: kill
before/after every disk operation (torn variant for raw writes), every legal one-shot OSError
at every operation, sticky ENOSPC from every operation on, short raw writes and EINTR, plus
seeded "error then kill in the error path" pairs.  Two-writer workloads enumerate every pair
of operation boundaries (writer A runs i ops, B runs j ops, A finishes, B finishes) and seeded
interleavings; the writers are real threads parked at every disk operation and released one
at a time (the scheduler, never the OS, decides who runs)."""
from __future__ import annotations

import threading

from sim.core import Outcome, Rng
from sim import simfs
from sim.simfs import SimFS, SimKill, ERRNO_FOR

import srctools
from srctools import AtomicWriter

PROP = 'C12'
LEVEL = 'fault_enumeration'
RUNS = {'quick': 1600, 'thorough': 120000}
BATCH = {'quick': 30, 'thorough': 200}
BUDGET_S = {'quick': 70.0, 'thorough': 1500.0}
RULE = ('one run = one workload (dest absent/present/parent missing, 0-3 stale tmp_N files, body of writes straddling the '
        'buffer size with seek/tell/flush, optional body exception at write j, optional second session on the same '
        'AtomicWriter, bytes/text mode, host newline mode, buffer size) whose complete single-fault space is enumerated: '
        'kill before/after/torn at each disk operation, each legal errno at each operation, sticky ENOSPC from each '
        'operation, short write, EINTR, and seeded error+kill pairs; two-writer workloads enumerate all (i,j) boundary '
        'pairs plus seeded interleavings. evaluations = workloads; fault plans executed are counted in '
        'probes.fault_plans_executed. Non-trivial: at least one fault or kill landed between make_tempfile and the end '
        'of __exit__. distinct = distinct event-log digest (workload + every plan outcome).')
STATE_MEASURE = 'distinct (operation kind, fault kind, outcome class) triples and distinct frozen-disk shapes at kill points'
REAL_VS_STUB = {
    'real': ['srctools.AtomicWriter', 'pathlib.Path.open/mkdir/unlink/replace', 'CPython BufferedWriter/TextIOWrapper',
             'srctools.bsp.BSP.save (bsp workloads)'],
    'stub': ['kernel + medium: sim/simfs.py (validated differentially against a real directory by tools/fidelity.py)',
             'the caller body (scripted writes)'],
}
ASSUMPTIONS = [
    'crash model = process kill: completed system calls persist, nothing else (power-loss reordering / fsync is outside the statement)',
    'a handled failure whose own cleanup unlink was the injected fault is not judged for the temp-file clause',
    'SimFS fidelity (tools/fidelity.py: 6000 seeded scripts equal to a real directory)',
]


class BodyError(Exception):
    pass


D = simfs.MOUNT + '/game/maps'


def payload(tag: str, n: int, text: bool):
    if text:
        line = f'{tag} line of text 0123456789\n'
        s = (line * (n // len(line) + 1))[:n]
        return s
    head = (tag + ':').encode()
    body = bytes((i * 7 + len(tag)) & 0xFF for i in range(max(0, n - len(head))))
    return (head + body)[:n]


# ------------------------------------------------------------------ generation
def _gen_body(r: Rng, text: bool):
    body = []
    nw = r.randrange(0, 6)
    for _ in range(nw):
        size = r.pick([0, 1, 7, 100, 4095, 4096, 4097, 8191, 8192, 8193, 20000, r.randrange(1, 30000)])
        body.append(['write', size])
        x = r.random()
        if x < 0.15:
            body.append(['flush'])
        elif x < 0.25 and not text:
            body.append(['tell'])
        elif x < 0.35 and not text:
            body.append(['seekback', r.randrange(0, 64)])
    return body


def gen(rng: Rng, tier: str, index: int) -> dict:
    r = rng.child('workload')
    kind = r.wpick([('single', 0.55), ('reuse', 0.17), ('two', 0.18), ('bsp', 0.10)])
    if kind == 'bsp':
        from machines import bsp_lossless
        corpus = bsp_lossless._corpus_index()
        small = [m for m in corpus if m['bytes'] < 9000] or corpus
        return {'kind': 'bsp', 'mode': 'bsp', 'corpus': r.pick(small)['file'] if small else None, 'views': r.sample(['ents', 'cubemaps', 'planes', 'pakfile', 'textures', 'vertexes', 'visibility'], r.randrange(0, 3)),
                'dest_state': 'present', 'stale': r.pick([0, 0, 1]), 'linesep': '\n', 'blksize': r.pick([512, 4096, 8192]), 'sessions': [], 'plans': None,
                'plan_seed': r.randrange(1 << 30), 'save_as': r.chance(0.3)}
    text = r.chance(0.3)
    case = {
        'kind': kind, 'mode': 'text' if text else 'bytes',
        'dest_state': r.pick(['present', 'present', 'absent', 'noparent']),
        'stale': r.pick([0, 0, 0, 1, 2, 3]),
        'linesep': r.pick(['\n', '\r\n']) if text else '\n',
        'blksize': r.pick([512, 4096, 4096, 8192, 65536]),
        'sessions': [], 'plans': None, 'plan_seed': r.randrange(1 << 30),
    }
    nsess = 1 if kind == 'single' else 2
    for s in range(nsess):
        body = _gen_body(r, text)
        if r.chance(0.25) and body:
            body.insert(r.randrange(0, len(body) + 1), ['raise'])
        case['sessions'].append(body)
    if kind == 'two':
        case['same_dest'] = r.chance(0.3)
        case['sessions'] = [[st for st in b if st[0] != 'raise'] for b in case['sessions']]
    return case


# ------------------------------------------------------------------ execution of one workload under one plan
def _setup_fs(case, plan):
    fs = SimFS(plan=plan, linesep=case['linesep'])
    fs.blksize = case['blksize']
    fs.put_dir(simfs.MOUNT + '/game')
    if case['dest_state'] != 'noparent':
        fs.put_dir(D)
        fs.put(D + '/other.dat', b'UNRELATED' * 50)
        for i in range(1, case['stale'] + 1):
            fs.put(D + f'/tmp_{i}', f'stale{i}'.encode() * 10)
    if case['dest_state'] == 'present':
        fs.put(D + '/a.bsp', b'OLD-A:' + bytes(range(256)) * 20)
        if case.get('kind') == 'two':
            fs.put(D + '/b.bsp', b'OLD-B:' + bytes(range(255, -1, -1)) * 20)
    fs.op = 0
    fs.log.clear()
    return fs


def _do_body(f, body, tag, text):
    for st in body:
        if st[0] == 'write':
            f.write(payload(tag, st[1], text))
        elif st[0] == 'flush':
            f.flush()
        elif st[0] == 'tell':
            f.tell()
        elif st[0] == 'seekback':
            end = f.tell()
            off = min(st[1], end)
            f.seek(off)
            f.write(payload('PATCH', min(8, end - off), False))
            f.seek(end)
        elif st[0] == 'raise':
            raise BodyError('body failed')


def _run_sessions(case, fs, dest, bodies, tags, results):
    """Sessions on one AtomicWriter object.  results gets one entry per session."""
    text = case['mode'] == 'text'
    aw = AtomicWriter(dest, is_bytes=not text) if not text else AtomicWriter(dest)
    for body, tag in zip(bodies, tags):
        try:
            with aw as f:
                _do_body(f, body, tag, text)
            results.append('ok')
        except SimKill:
            results.append('killed')
            raise
        except BodyError:
            results.append('body-exc')
        except OSError as e:
            results.append('oserror:' + type(e).__name__)
        except Exception as e:
            results.append('exc:' + type(e).__name__ + ':' + str(e)[:80])


def _tmp_names(fs):
    pre = D + '/'
    return sorted(k[len(pre):] for k in fs.nodes if k.startswith(pre) and k[len(pre):].startswith('tmp_'))


def _dir_names(fs):
    pre = D + '/'
    return sorted(k[len(pre):] for k in fs.nodes if k.startswith(pre))


def execute_single(case, plan):
    """Returns (fs, results, killed)."""
    fs = _setup_fs(case, plan)
    results = []
    killed = False
    with fs:
        try:
            tags = ['NEW1', 'NEW2']
            _run_sessions(case, fs, D + '/a.bsp', case['sessions'], tags, results)
        except SimKill:
            killed = True
    return fs, results, killed


def _expected_after(case, results, ref_news, old):
    """Which byte string must the destination hold, given the per-session outcomes (no kill)."""
    cur = old
    for res, new in zip(results, ref_news):
        if res == 'ok':
            cur = new
    return cur


def _reference(case):
    """Fault-free run: NEW bytes per session, op log."""
    ref_news = []
    fs = _setup_fs(case, {})
    text = case['mode'] == 'text'
    with fs:
        aw = AtomicWriter(D + '/a.bsp', is_bytes=not text) if not text else AtomicWriter(D + '/a.bsp')
        for body, tag in zip(case['sessions'], ['NEW1', 'NEW2']):
            try:
                with aw as f:
                    _do_body(f, body, tag, text)
                ref_news.append(fs.get(D + '/a.bsp'))
            except BodyError:
                ref_news.append(None)
    return fs, ref_news


def _fault_plans(case, ref_log):
    plans = []
    for (k, task, kind, path, size, outcome) in ref_log:
        plans.append({'crash': [k, 'before']})
        plans.append({'crash': [k, 'after']})
        if kind == 'write' and size > 1:
            plans.append({'crash': [k, 'torn', 0.5]})
            plans.append({'short': {str(k): 0.3}})
            plans.append({'errors': {str(k): 'EINTR'}})
        for e in ERRNO_FOR.get(kind, ()):
            plans.append({'errors': {str(k): e}})
        if kind in ('write', 'open_create', 'mkdir'):
            plans.append({'sticky': [k, 'ENOSPC']})
    r = Rng(case['plan_seed'])
    n = len(ref_log)
    for _ in range(min(12, n)):
        k = r.randrange(n)
        kind = ref_log[k][2]
        errs = ERRNO_FOR.get(kind, ())
        if errs:
            plans.append({'errors': {str(k): r.pick(list(errs))}, 'crash': [k + r.randrange(1, 4), r.pick(['before', 'after'])]})
    return plans


def _plan_kind(plan):
    parts = []
    if 'crash' in plan:
        parts.append('kill-' + plan['crash'][1])
    if 'errors' in plan:
        parts.append('err-' + next(iter(plan['errors'].values())))
    if 'sticky' in plan:
        parts.append('sticky-' + plan['sticky'][1])
    if 'short' in plan:
        parts.append('short')
    return '+'.join(parts) or 'none'


def run(case: dict) -> Outcome:
    out = Outcome()
    if case['kind'] == 'two':
        return _run_two(case, out)
    if case['kind'] == 'bsp':
        return _run_bsp(case, out)
    mode = case['mode']
    base = _setup_fs(case, {})
    before_snapshot = base.snapshot()
    old = base.get(D + '/a.bsp')
    tmp_before = _tmp_names(base)
    try:
        ref_fs, ref_news = _reference(case)
    except Exception as e:
        out.violate('reference-failed', type(e).__name__, f'fault-free workload raised {e!r}: {case}')
        return out
    ref_log = list(ref_fs.log)
    out.event('ref', [(k, kind, size) for (k, t, kind, p, size, o) in ref_log], [None if n is None else len(n) for n in ref_news])
    # fault-free outcome itself
    final = _expected_after(case, ['ok' if n is not None else 'body-exc' for n in ref_news], ref_news, old)
    if ref_fs.get(D + '/a.bsp') != final:
        out.violate('success-wrong', f'{mode}|fault-free', 'destination after fault-free run is not the last successful NEW')
    if _tmp_names(ref_fs) != tmp_before:
        out.violate('temp-left-after-success' if all(n is not None for n in ref_news) else 'temp-left-after-failure',
                    f'{mode}|fault-free|{"body-exc" if any(n is None for n in ref_news) else "ok"}',
                    f'temp files {_tmp_names(ref_fs)} vs before {tmp_before}')
    for name, data in before_snapshot.items():
        if name not in (D + '/a.bsp',) and ref_fs.snapshot().get(name) != data and data is not None:
            out.violate('bystander-changed', f'{mode}|fault-free', f'{name} changed by a fault-free session')
    allowed_values = [old] + [n for n in ref_news if n is not None]
    plans = case['plans'] if case.get('plans') is not None else _fault_plans(case, ref_log)
    for plan in plans:
        fs, results, killed = execute_single(case, plan)
        out.steps += 1
        out.stats['fault_plans_executed'] += 1
        fired = list(fs.fired)
        for (k, kind, what) in fired:
            out.stats['fired_' + what] += 1
            out.states.add(f'{kind}|{what}|{"killed" if killed else results[-1] if results else "none"}')
        dest = fs.get(D + '/a.bsp')
        pk = _plan_kind(plan)
        opk = fired[0][1] if fired else 'none'
        out.event(plan, results, killed, None if dest is None else len(dest), _tmp_names(fs))
        if fired:
            out.nontrivial = True
        # bystanders never change
        snap = fs.snapshot()
        for name, data in before_snapshot.items():
            if data is not None and name != D + '/a.bsp' and snap.get(name) != data:
                out.violate('bystander-changed', f'{mode}|{opk}|{pk}', f'{name} changed; plan {plan}')
        if killed:
            if dest not in allowed_values and not (dest is None and old is None):
                out.violate('mixture-after-crash', f'{mode}|{opk}|{pk}',
                            f'after kill (plan {plan}) destination holds {_describe(dest, allowed_values)}; sessions {case["sessions"]}')
            # which value is allowed depends on progress: never NEW of a session that had not finished its body
            # restart on the surviving bytes
            fs.restart()
            with fs:
                try:
                    aw = AtomicWriter(D + '/a.bsp', is_bytes=True)
                    with aw as f:
                        f.write(b'RESTART' * 100)
                    if fs.get(D + '/a.bsp') != b'RESTART' * 100:
                        out.violate('restart-failed', f'{mode}|{opk}|{pk}|wrong-bytes', f'restart session left {fs.get(D + "/a.bsp")!r:.80}')
                except Exception as e:
                    out.violate('restart-failed', f'{mode}|{opk}|{pk}|{type(e).__name__}', f'restart after kill raised {e!r}; plan {plan}')
            continue
        # not killed: every session ended as ok or a handled failure
        want = _expected_after(case, results, ref_news, old)
        if dest != want:
            clause = 'dest-changed-after-failure' if any(r != 'ok' for r in results) else 'success-wrong'
            out.violate(clause, f'{mode}|{opk}|{pk}', f'plan {plan} results {results}: destination holds {_describe(dest, allowed_values)}, expected '
                        f'{_describe(want, allowed_values)}')
        for r in results:
            if r.startswith('exc:'):
                out.violate('unexpected-exception', f'{mode}|{opk}|{pk}|{r.split(":")[1]}', f'session raised {r}; plan {plan}')
        tmps = _tmp_names(fs)
        if tmps != tmp_before:
            cleanup_faulted = any(kind == 'unlink' and what not in ('crash-before', 'crash-after') for (k, kind, what) in fired) \
                or ('sticky' in plan and plan['sticky'][1] in ('EROFS',))
            if not cleanup_faulted:
                failed = any(r != 'ok' for r in results)
                out.violate('temp-left-after-failure' if failed else 'temp-left-after-success', f'{mode}|{opk}|{pk}',
                            f'plan {plan} results {results}: temp files now {tmps}, before {tmp_before}')
    out.sample = {'workload': {k: v for k, v in case.items() if k not in ('plans',)}, 'ops': [(k, kind, size) for (k, t, kind, p, size, o) in ref_log][:40],
                  'plans_enumerated': len(plans), 'first_plans': plans[:5]}
    return out


def _describe(data, allowed):
    if data is None:
        return 'nothing (absent)'
    for name, a in zip(['OLD', 'NEW1', 'NEW2'], allowed if allowed and allowed[0] is not None else [b''] + allowed[1:]):
        if a is not None and data == a:
            return name
    for name, a in zip(['OLD', 'NEW1', 'NEW2'], allowed):
        if a and data and a.startswith(data):
            return f'a {len(data)}-byte prefix of {name} ({len(a)} bytes)'
    return f'{len(data)} bytes matching neither OLD nor NEW: {bytes(data[:24])!r}...'


# ------------------------------------------------------------------ BSP.save on top of the atomic writer
def _bsp_setup(case, plan, blob):
    fs = SimFS(plan=plan)
    fs.blksize = case['blksize']
    fs.put_dir(D)
    fs.put(D + '/other.dat', b'UNRELATED' * 50)
    for i in range(1, case['stale'] + 1):
        fs.put(D + f'/tmp_{i}', f'stale{i}'.encode() * 10)
    fs.put(D + '/a.bsp', blob)
    if case.get('save_as'):
        fs.put(D + '/b.bsp', b'OLD-B:' + bytes(range(256)) * 4)
    return fs


def _bsp_session(case, fs):
    from srctools.bsp import BSP
    b = BSP(D + '/a.bsp')
    for v in case['views']:
        getattr(b, v)
    start = fs.op
    b.map_revision += 1          # make NEW differ from OLD
    if case.get('save_as'):
        b.save(D + '/b.bsp')
    else:
        b.save()
    return start


def _run_bsp(case, out: Outcome):
    import os
    from sim.core import VERIF
    if not case.get('corpus'):
        return out
    with open(os.path.join(VERIF, 'corpus', 'bsp', case['corpus']), 'rb') as f:
        blob = f.read()
    dest = D + ('/b.bsp' if case.get('save_as') else '/a.bsp')
    ref = _bsp_setup(case, {}, blob)
    old = ref.get(dest)
    tmp_before = _tmp_names(ref)
    with ref:
        try:
            start = _bsp_session(case, ref)
        except Exception as e:
            out.violate('reference-failed', 'bsp|' + type(e).__name__, f'fault-free BSP.save raised {e!r}')
            return out
    new = ref.get(dest)
    save_ops = [op for op in ref.log if op[0] >= start]
    # the destination is only ever touched by the final replace
    for (k, task, kind, path, size, outcome) in save_ops:
        if kind in ('open_create', 'write', 'truncate', 'unlink') and path == dest:
            out.violate('dest-written-directly', f'bsp|{kind}', f'BSP.save did {kind} on the destination {dest} itself (operation {k})')
    if _tmp_names(ref) != tmp_before:
        out.violate('temp-left-after-success', 'bsp|fault-free', f'temp files {_tmp_names(ref)} after a fault-free BSP.save')
    plans = case.get('plans')
    if plans is None:
        r = Rng(case['plan_seed'])
        allp = _fault_plans(case, save_ops)
        plans = [allp[i] for i in sorted(r.sample(range(len(allp)), min(40, len(allp))))]
    out.event('ref', len(save_ops), len(new or b''))
    for plan in plans:
        fs = _bsp_setup(case, plan, blob)
        killed = False
        err = None
        with fs:
            try:
                _bsp_session(case, fs)
            except SimKill:
                killed = True
            except OSError as e:
                err = e
            except Exception as e:
                err = e
                out.violate('unexpected-exception', f'bsp|{type(e).__name__}', f'BSP.save under plan {plan} raised {e!r}')
        out.steps += 1
        out.stats['fault_plans_executed'] += 1
        out.stats['bsp_save_plans'] += 1
        fired = list(fs.fired)
        for (k, kind, what) in fired:
            out.stats['fired_' + what] += 1
            out.states.add(f'bsp|{kind}|{what}|{"killed" if killed else "error" if err else "ok"}')
        if fired:
            out.nontrivial = True
        got = fs.get(dest)
        pk = _plan_kind(plan)
        opk = fired[0][1] if fired else 'none'
        out.event(plan, killed, type(err).__name__ if err else None, None if got is None else len(got), _tmp_names(fs))
        if fs.get(D + '/other.dat') != b'UNRELATED' * 50 or (case.get('save_as') and fs.get(D + '/a.bsp') != blob):
            out.violate('bystander-changed', f'bsp|{opk}|{pk}', f'another file in the directory changed under plan {plan}')
        if got not in (old, new):
            out.violate('mixture-after-crash' if killed else 'dest-changed-after-failure', f'bsp|{opk}|{pk}',
                        f'BSP.save under plan {plan}: destination holds {_describe(got, [old, new])}')
        elif not killed and err is not None and got != old:
            out.violate('dest-changed-after-failure', f'bsp|{opk}|{pk}', f'BSP.save failed with {err!r} but the destination changed')
        elif not killed and err is None and got != new:
            out.violate('success-wrong', f'bsp|{opk}|{pk}', f'BSP.save returned normally under plan {plan} but the destination is not the new file')
        if not killed and _tmp_names(fs) != tmp_before:
            cleanup_faulted = any(kind == 'unlink' and what not in ('crash-before', 'crash-after') for (k, kind, what) in fired)
            if not cleanup_faulted:
                out.violate('temp-left-after-failure' if err is not None else 'temp-left-after-success', f'bsp|{opk}|{pk}',
                            f'BSP.save under plan {plan}: temp files now {_tmp_names(fs)}, before {tmp_before}')
    out.sample = {'workload': {k: v for k, v in case.items() if k != 'plans'}, 'save_ops': len(save_ops), 'plans_sampled': len(plans)}
    return out


# ------------------------------------------------------------------ two writers
class _Baton:
    """Real threads parked at every SimFS seam operation; exactly one runs at a time."""

    def __init__(self, fs, n):
        self.fs = fs
        self.gates = [threading.Semaphore(0) for _ in range(n)]
        self.back = threading.Semaphore(0)
        self.done = [False] * n
        self.exc = [None] * n
        self.ids = {}
        self.ops = [0] * n

    def hook(self, fs, kind, path):
        tid = self.ids.get(threading.get_ident())
        if tid is None:
            return
        self.ops[tid] += 1
        self.back.release()          # parked: hand control to the scheduler
        self.gates[tid].acquire()    # wait until released again
        fs.task = f'w{tid}'

    def thread_main(self, tid, fn):
        self.ids[threading.get_ident()] = tid
        self.gates[tid].acquire()
        self.fs.task = f'w{tid}'
        try:
            fn()
        except BaseException as e:
            self.exc[tid] = e
        self.done[tid] = True
        self.back.release()

    def step(self, tid):
        """Let writer tid run until its next seam operation or its end."""
        self.gates[tid].release()
        self.back.acquire()


def _run_two(case, out: Outcome):
    text = case['mode'] == 'text'
    dests = [D + '/a.bsp', D + '/a.bsp' if case.get('same_dest') else D + '/b.bsp']
    # reference: each writer alone
    news = []
    lens = []
    for w in (0, 1):
        fs = _setup_fs(case, {})
        with fs:
            res = []
            _run_sessions(case, fs, dests[w], [case['sessions'][w]], [f'W{w}NEW'], res)
        news.append(fs.get(dests[w]))
        lens.append(len(fs.log))
    base = _setup_fs(case, {})
    tmp_before = _tmp_names(base)
    scheds = case.get('plans')
    if scheds is None:
        scheds = []
        m, n = lens
        if m * n <= 400:
            for i in range(m + 1):
                for j in range(n + 1):
                    scheds.append({'ij': [i, j]})
        r = Rng(case['plan_seed'])
        for _ in range(40 if m * n <= 400 else 120):
            scheds.append({'seq': [r.randrange(2) for _ in range(m + n + 4)]})
    for sch in scheds:
        fs = _setup_fs(case, {})
        baton = _Baton(fs, 2)
        fs.yield_hook = baton.hook
        results = [[], []]

        def mk(w):
            return lambda: _run_sessions(case, fs, dests[w], [case['sessions'][w]], [f'W{w}NEW'], results[w])
        with fs:
            threads = [threading.Thread(target=baton.thread_main, args=(w, mk(w)), daemon=True) for w in (0, 1)]
            for t in threads:
                t.start()
            order = []
            if 'ij' in sch:
                i, j = sch['ij']
                plan_seq = [0] * (i + 1) + [1] * (j + 1)
            else:
                plan_seq = list(sch['seq'])
            pos = 0
            guard = 0
            while not all(baton.done):
                guard += 1
                if guard > 10000:
                    out.violate('two-writer-hang', case['mode'], f'schedule {sch} did not finish')
                    break
                if pos < len(plan_seq):
                    w = plan_seq[pos]
                    pos += 1
                else:
                    w = 0 if not baton.done[0] else 1
                if baton.done[w]:
                    w = 1 - w
                    if baton.done[w]:
                        break
                baton.step(w)
                order.append(w)
            for t in threads:
                t.join(timeout=5)
            fs.yield_hook = None
        out.steps += 1
        out.stats['interleavings_executed'] += 1
        out.states.add('sched:' + ''.join(map(str, order)))
        out.nontrivial = True
        out.event(sch, results, [repr(e) for e in baton.exc], _dir_names(fs))
        for w in (0, 1):
            if baton.exc[w] is not None or results[w] != ['ok']:
                out.violate('cross-writer-clobber', f'{case["mode"]}|writer-failed|{type(baton.exc[w]).__name__ if baton.exc[w] else results[w]}',
                            f'writer {w} failed under schedule {sch} ({order}): {baton.exc[w]!r} {results[w]}')
        if case.get('same_dest'):
            if fs.get(dests[0]) not in news:
                out.violate('cross-writer-clobber', f'{case["mode"]}|same-dest|mixture',
                            f'destination is neither writer\'s complete output under schedule {order}')
        else:
            for w in (0, 1):
                if fs.get(dests[w]) != news[w]:
                    out.violate('cross-writer-clobber', f'{case["mode"]}|different-dest|wrong-content',
                                f'writer {w} destination does not hold its own output under schedule {order}: {_describe(fs.get(dests[w]), [None, news[0], news[1]])}')
        if _tmp_names(fs) != tmp_before:
            out.violate('cross-writer-clobber', f'{case["mode"]}|temp-left', f'temp files {_tmp_names(fs)} after both writers finished ({order})')
        # op-log check: no writer touched a temp file created by the other
        owner = {}
        for (k, task, kind, path, size, outcome) in fs.log:
            for pth in path.split(' -> ')[:1]:
                name = pth.rsplit('/', 1)[-1]
                if name.startswith('tmp_') and outcome == 'ok':
                    if kind == 'open_create' and pth not in owner and fs_created(fs, k):
                        owner[pth] = task
                    elif pth in owner and owner[pth] != task and kind in ('unlink', 'replace', 'write', 'open_create', 'truncate'):
                        if kind == 'open_create':
                            continue   # exclusive create that failed with FileExistsError
                        out.violate('cross-writer-clobber', f'{case["mode"]}|foreign-temp|{kind}',
                                    f'{task} did {kind} on {pth} created by {owner[pth]} (schedule {order})')
                    if kind in ('unlink', 'replace') and owner.get(pth) == task:
                        del owner[pth]
    out.sample = {'workload': {k: v for k, v in case.items() if k != 'plans'}, 'schedules': len(scheds), 'ops_per_writer': lens}
    return out


def fs_created(fs, k):
    return True


SHRINK_LISTS = ('plans',)


def simplify(case: dict):
    if case['kind'] == 'bsp':
        if case['views']:
            yield dict(case, views=[])
        if case['stale']:
            yield dict(case, stale=0)
        return
    if case.get('plans') is None and case['kind'] != 'two':
        # make the plan list explicit so that it can be reduced
        try:
            ref_fs, _ = _reference(case)
            yield dict(case, plans=_fault_plans(case, list(ref_fs.log)))
        except Exception:
            pass
    if case['stale']:
        yield dict(case, stale=0, plans=None)
    if case['dest_state'] != 'present':
        yield dict(case, dest_state='present', plans=None)
    if len(case['sessions']) > 1 and case['kind'] != 'two':
        yield dict(case, sessions=case['sessions'][:1], kind='single', plans=None)
    for si, body in enumerate(case['sessions']):
        for i in range(len(body)):
            nb = body[:i] + body[i + 1:]
            yield dict(case, sessions=case['sessions'][:si] + [nb] + case['sessions'][si + 1:], plans=None)
        for i, st in enumerate(body):
            if st[0] == 'write' and st[1] > 10:
                nb = body[:i] + [['write', 10]] + body[i + 1:]
                yield dict(case, sessions=case['sessions'][:si] + [nb] + case['sessions'][si + 1:], plans=None)
    if case['mode'] == 'text':
        yield dict(case, mode='bytes', linesep='\n', plans=None)
    if case['blksize'] != 4096:
        yield dict(case, blksize=4096, plans=None)

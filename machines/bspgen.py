"""Shared BSP workload for C10/C11: a hand-packed minimal valid map (raw struct packing, independent of
srctools.bsp), container variants, seeded generators of well-formed view values, and observation
functions that turn parsed views into plain comparable data (cross references by index)."""
from __future__ import annotations

import io
import struct
import zipfile

from sim.core import Rng
from sim.refmodels import bspcontainer as C

from srctools import bsp as B
from srctools.bsp import BSP, BSP_LUMPS as L
from srctools.math import Vec, Angle
from srctools.keyvalues import Keyvalues
from srctools.vmf import VMF, Entity, Output

VIEWS = ['pakfile', 'ents', 'textures', 'texinfo', 'cubemaps', 'overlays', 'bmodels', 'brushes', 'visleafs', 'water_leaf_info',
         'nodes', 'visibility', 'vertexes', 'surfedges', 'planes', 'faces', 'orig_faces', 'hdr_faces', 'primitives', 'props',
         'detail_props']
VIEW_LUMPS = {name: getattr(BSP, name).to_clear for name in VIEWS}
STRUCTURED = set()
for _n in VIEWS:
    for _l in VIEW_LUMPS[_n]:
        STRUCTURED.add(_l.value if isinstance(_l, L) else _l)
# lumps some writer (re)generates as a side product of another view
STRUCTURED |= {L.EDGES.value, L.FACEIDS.value, L.TEXDATA.value, L.PRIMINDICES.value, L.PRIMVERTS.value}


def f32(x: float) -> float:
    return struct.unpack('<f', struct.pack('<f', x))[0]


# ------------------------------------------------------------------ hand-packed skeleton
def variant_of(version: int) -> str:
    """Which on-disk layout family a header version selects (my own table, not the library's)."""
    if version == 43:
        return 'vitamin'
    if version == 25:
        return 'chaos'
    if version == 22:
        return 'infra'
    return 'v19' if version <= 19 else 'std'


MAGIC = {'vitamin': b'FART'}


def skeleton_lumps(version=21, leaf_v=1) -> dict:
    """Raw lumps of a minimal valid map: 1 plane, 1 node, 2 leafs, 1 brush model, empty everything else."""
    lumps = {}
    var = variant_of(version)

    def put(lump, data, ver=0):
        lumps[lump.value] = {'data': data, 'version': ver, 'compressed': False}
    put(L.ENTITIES, b'{\n"classname" "worldspawn"\n"mapversion" "7"\n}\n{\n"classname" "info_player_start"\n"origin" "0 0 16"\n}\n\x00')
    put(L.PLANES, struct.pack('<ffffi', 0.0, 0.0, 1.0, 0.0, 2))
    if var == 'chaos':
        put(L.NODES, struct.pack('<iii6fIIhxx', 0, -1, -2, -64.0, -64.0, -64.0, 64.0, 64.0, 64.0, 0, 0, 0))
    elif var == 'vitamin':
        put(L.NODES, struct.pack('<iii6iHHh2x', 0, -1, -2, -64, -64, -64, 64, 64, 64, 0, 0, 0))
    else:
        put(L.NODES, struct.pack('<iii6hHHh2x', 0, -1, -2, -64, -64, -64, 64, 64, 64, 0, 0, 0))
    if var == 'v19':
        leaf = struct.Struct('<ihh6h4Hh24s2x')
        leafs = leaf.pack(1, -1, 0, -64, -64, -64, 64, 64, 0, 0, 0, 0, 0, -1, bytes(24)) + \
            leaf.pack(0, 0, 1 << 7, -64, -64, 0, 64, 64, 64, 0, 0, 0, 0, -1, bytes(range(24)))
        put(L.LEAFS, leafs, 0)
    elif var == 'chaos':
        leaf = struct.Struct('<iii6f4Ii')
        put(L.LEAFS, leaf.pack(1, -1, 0, -64.0, -64.0, -64.0, 64.0, 64.0, 0.0, 0, 0, 0, 0, -1) +
            leaf.pack(0, 0, 1 << 17, -64.0, -64.0, 0.0, 64.0, 64.0, 64.0, 0, 0, 0, 0, -1), 2)
    elif var == 'vitamin':
        leaf = struct.Struct('<ihh6I4HhBx')
        put(L.LEAFS, leaf.pack(1, -1, 0, 0, 0, 0, 64, 64, 32, 0, 0, 0, 0, -1, 0) +
            leaf.pack(0, 0, 1, 0, 0, 32, 64, 64, 64, 0, 0, 0, 0, -1, 2), 1)
    else:
        leaf = struct.Struct('<ihh6h4Hh2x')
        put(L.LEAFS, leaf.pack(1, -1, 0, -64, -64, -64, 64, 64, 0, 0, 0, 0, 0, -1) +
            leaf.pack(0, 0, 1 << 7, -64, -64, 0, 64, 64, 64, 0, 0, 0, 0, -1), 1)
    put(L.LEAFMINDISTTOWATER, struct.pack('<HH', 65535, 65535))
    # the conventional dummy edge 0 (never referenced, since -0 == 0) on a (0,0,0) vertex, as compilers emit it
    put(L.VERTEXES, struct.pack('<fff', 0.0, 0.0, 0.0))
    put(L.EDGES, struct.pack('<II' if var == 'chaos' else '<HH', 0, 0))
    put(L.MODELS, struct.pack('<9fiii', -64.0, -64.0, -64.0, 64.0, 64.0, 64.0, 0.0, 0.0, 0.0, 0, 0, 0))
    put(L.PHYSCOLLIDE, struct.pack('<iiii', -1, 0, 0, 0))
    # some lumps with no structured view: opaque payloads that must survive byte for byte
    put(L.LIGHTING, bytes(range(200)) * 3, 1)
    put(L.WORLDLIGHTS, b'WORLDLIGHT-OPAQUE' * 11)
    put(L.AREAS, struct.pack('<ii', 0, 0) * 2)
    put(L.MAP_FLAGS, struct.pack('<I', 3))
    put(L.DISPINFO, b'')
    put(L.VERTNORMALS, struct.pack('<fff', 0.0, 0.0, 1.0) * 4)
    return lumps


def skeleton_game_lumps(sprp_ver=10) -> list:
    return [
        {'id': b'prps', 'flags': 0, 'version': sprp_ver, 'data': struct.pack('<iii', 0, 0, 0)},
        {'id': b'prpd', 'flags': 0, 'version': 4, 'data': struct.pack('<iii', 0, 0, 0)},
    ]


def make_skeleton(version=21, revision=7, l4d2=False, sprp_ver=10) -> bytes:
    return C.write_container(version, revision, skeleton_lumps(version), skeleton_game_lumps(sprp_ver), l4d2=l4d2,
                             magic=MAGIC.get(variant_of(version), b'VBSP'))


def repack(blob: bytes, *, compress=(), compress_game=(), l4d2=None) -> bytes:
    """Container variant of an existing file: chosen lumps LZMA-compressed, optional L4D2 header order."""
    c = C.read_container(blob)
    lumps = {}
    for idx, lump in c['lumps'].items():
        if idx == C.GAME_LUMP:
            continue
        lumps[idx] = {'data': lump['data'], 'version': lump['version'], 'compressed': (idx in compress) and len(lump['data']) > 0}
    games = []
    for g in c['game_lumps']:
        g = dict(g)
        if g['id'] in compress_game:
            g['flags'] |= 1
        games.append(g)
    return C.write_container(c['version'], c['revision'], lumps, games, l4d2=c['l4d2'] if l4d2 is None else l4d2, magic=c['magic'])


# ------------------------------------------------------------------ observation of parsed views
def ov(v) -> list:
    return [float(v.x), float(v.y), float(v.z)]


def o_plane(p):
    return [ov(p.normal), float(p.dist), p.type.value]


def o_texinfo(t):
    if t is None:
        return None
    return [ov(t.s_off), float(t.s_shift), ov(t.t_off), float(t.t_shift), ov(t.lightmap_s_off), float(t.lightmap_s_shift),
            ov(t.lightmap_t_off), float(t.lightmap_t_shift), t.flags.value, t.mat, ov(t._info.reflectivity), t._info.width, t._info.height]


def o_edge(e):
    return [ov(e.a), ov(e.b), isinstance(e, B.RevEdge)]


def o_prim(p):
    return [bool(p.is_tristrip), list(p.indexed_verts), [ov(v) for v in p.verts]]


def o_face(f, depth=0):
    if f is None:
        return None
    return {
        'plane': o_plane(f.plane), 'side': bool(f.same_dir_as_plane), 'on_node': bool(f.on_node), 'edges': [o_edge(e) for e in f.edges],
        'texinfo': o_texinfo(f.texinfo), 'dispinfo': f._dispinfo_ind, 'fog': f.surf_fog_volume_id, 'styles': bytes(f.light_styles).hex(),
        'lm_off': f._lightmap_off, 'area': float(f.area), 'lm_mins': list(f.lightmap_mins), 'lm_size': list(f.lightmap_size),
        'orig': o_face(f.orig_face, depth + 1) if depth == 0 else None, 'prims': [o_prim(p) for p in f.primitives],
        'dyn_shadows': bool(f.dynamic_shadows), 'smooth': f.smoothing_groups, 'hammer_id': f.hammer_id, 'vflags': f.vitamin_flags,
    }


def o_brush(b):
    return [b.contents.value, [[o_plane(s.plane), o_texinfo(s.texinfo), s._dispinfo, bool(s.is_bevel_plane), s._unknown_bevel_bits] for s in b.sides]]


def o_leaf(leaf):
    return {'contents': leaf.contents.value, 'cluster': leaf.cluster_id, 'area': leaf.area, 'flags': leaf.flags.value, 'mins': ov(leaf.mins),
            'maxes': ov(leaf.maxes), 'faces': [o_face(f) for f in leaf.faces], 'brushes': [o_brush(b) for b in leaf.brushes],
            'water_id': leaf.water_id, 'ambient': bytes(leaf._ambient).hex(), 'water_dist': leaf.min_water_dist}


def _index_of(lst, obj):
    for i, x in enumerate(lst):
        if x is obj:
            return i
    return None


def o_node(n, nodes, leafs):
    def child(c):
        if isinstance(c, B.VisLeaf):
            return ['leaf', _index_of(leafs, c), None if _index_of(leafs, c) is not None else o_leaf(c)]
        return ['node', _index_of(nodes, c)]
    return {'plane': o_plane(n.plane), 'mins': ov(n.mins), 'maxes': ov(n.maxes), 'faces': [o_face(f) for f in n.faces], 'area': n.area_ind,
            'neg': child(n.child_neg), 'pos': child(n.child_pos)}


def o_ents(vmf: VMF):
    def ent(e):
        return {'keys': {k: v for k, v in e._keys.items()},
                'outputs': [[o.output, o.inst_out, o.target, o.input, o.inst_in, o.params, float(o.delay), o.times] for o in e.outputs]}
    return {'spawn': ent(vmf.spawn), 'ents': [ent(e) for e in vmf.entities]}


def o_prop(p, leafs):
    sc = p.scaling
    return {'model': p.model, 'origin': ov(p.origin), 'angles': [float(p.angles.pitch), float(p.angles.yaw), float(p.angles.roll)],
            'scaling': ov(sc) if isinstance(sc, Vec) else float(sc), 'leafs': sorted(_index_of(leafs, x) if _index_of(leafs, x) is not None else -1 for x in p.visleafs),
            'solidity': p.solidity, 'flags': p.flags.value, 'skin': p.skin, 'min_fade': float(p.min_fade), 'max_fade': float(p.max_fade),
            'lighting': ov(p.lighting), 'fade_scale': float(p.fade_scale), 'dx': [p.min_dx_level, p.max_dx_level],
            'cpu': [p.min_cpu_level, p.max_cpu_level], 'gpu': [p.min_gpu_level, p.max_gpu_level], 'tint': ov(p.tint), 'renderfx': p.renderfx,
            'xbox': bool(p.disable_on_xbox), 'lightmap': [p.lightmap_x, p.lightmap_y]}


def o_detail(p):
    d = {'type': type(p).__name__, 'origin': ov(p.origin), 'angles': [float(p.angles.pitch), float(p.angles.yaw), float(p.angles.roll)],
         'orient': p.orientation.value, 'leaf': p.leaf, 'lighting': list(p.lighting), 'styles': list(p._light_styles), 'sway': p.sway_amount}
    if isinstance(p, B.DetailPropModel):
        d['model'] = p.model
    if isinstance(p, B.DetailPropSprite):
        d.update(scale=float(p.sprite_scale), ul=list(p.dims_upper_left), lr=list(p.dims_lower_right), tul=list(p.texcoord_upper_left),
                 tlr=list(p.texcoord_lower_right))
    if isinstance(p, B.DetailPropShape):
        d.update(cross=bool(p.is_cross), shape_angle=p.shape_angle, shape_size=p.shape_size)
    return d


def observe_view(bsp: BSP, name: str):
    """Plain-data observation of one parsed view (accessing it parses it)."""
    v = getattr(bsp, name)
    if name == 'pakfile':
        return {zi.filename: v.read(zi.filename).hex() for zi in v.infolist()}
    if name == 'ents':
        res = o_ents(v)
        # which of the two output separators the lump uses is part of what was read (a map for an older engine must keep its commas)
        if any(e['outputs'] for e in [res['spawn']] + res['ents']):
            res['comma_sep'] = bsp.out_comma_sep
        return res
    if name == 'textures':
        # the string table is derived from the materials in use; order and duplicates are the writer's business
        return sorted({t.casefold() for t in v})
    if name == 'texinfo':
        return [o_texinfo(t) for t in v]
    if name == 'cubemaps':
        return [[ov(c.origin), c.size] for c in v]
    if name == 'overlays':
        return [{'id': o.id, 'origin': ov(o.origin), 'normal': ov(o.normal), 'tex': o_texinfo(o.texture), 'face_count': o.face_count,
                 'faces': list(o.faces), 'order': o.render_order, 'uv': [float(o.u_min), float(o.u_max), float(o.v_min), float(o.v_max)],
                 'handles': [ov(o.uv1), ov(o.uv2), ov(o.uv3), ov(o.uv4)], 'fade': [float(o.fade_min_sq), float(o.fade_max_sq)],
                 'sys': [o.min_cpu, o.max_cpu, o.min_gpu, o.max_gpu]} for o in v]
    if name == 'bmodels':
        vmf = bsp.ents
        order = [vmf.spawn] + list(vmf.entities)
        nodes = bsp.nodes
        res = []
        for i, e in enumerate(order):
            if e in v:
                m = v[e]
                res.append({'ent': i, 'mins': ov(m.mins), 'maxes': ov(m.maxes), 'origin': ov(m.origin), 'node': _index_of(nodes, m.node),
                            'faces': [o_face(f) for f in m.faces],
                            'phys_kv': None if m.phys_keyvalues is None else m.phys_keyvalues.serialise(),
                            'phys_solids': [bytes(s).hex() for s in m._phys_solids]})
        return res
    if name == 'brushes':
        return [o_brush(b) for b in v]
    if name == 'visleafs':
        return [o_leaf(x) for x in v]
    if name == 'water_leaf_info':
        return [[float(w.surface_z), float(w.min_z), o_texinfo(w.surface_texinfo)] for w in v]
    if name == 'nodes':
        leafs = bsp.visleafs
        return [o_node(n, v, leafs) for n in v]
    if name == 'visibility':
        return None if v is None else [[bytes(x).hex() for x in v.potentially_visible], [bytes(x).hex() for x in v.potentially_audible]]
    if name == 'vertexes':
        return [ov(x) for x in v]
    if name == 'surfedges':
        return [o_edge(e) for e in v]
    if name == 'planes':
        return [o_plane(p) for p in v]
    if name in ('faces', 'orig_faces', 'hdr_faces'):
        return [o_face(f) for f in v]
    if name == 'primitives':
        return [o_prim(p) for p in v]
    if name == 'props':
        leafs = bsp.visleafs
        return [o_prop(p, leafs) for p in v]
    if name == 'detail_props':
        return [o_detail(p) for p in v]
    raise KeyError(name)


# bmodels first: parsing it moves the "*N" model keys of brush entities out of the entity view
CANONICAL_ORDER = ['bmodels', 'pakfile', 'cubemaps', 'ents', 'textures', 'texinfo', 'planes', 'vertexes', 'surfedges', 'primitives', 'orig_faces',
                   'faces', 'hdr_faces', 'brushes', 'visleafs', 'nodes', 'water_leaf_info', 'visibility', 'overlays', 'props', 'detail_props']


def observe_all(bsp: BSP) -> dict:
    """Every structured view, accessed in one fixed order (so two files are observed alike)."""
    res = {}
    for name in CANONICAL_ORDER:
        try:
            res[name] = observe_view(bsp, name)
        except Exception as exc:
            res[name] = f'<error {type(exc).__name__}: {exc}>'
    return res


# ------------------------------------------------------------------ seeded generators of well-formed view values
from weakref import WeakKeyDictionary  # noqa: E402
from srctools.const import SurfFlags  # noqa: E402
BrushContents = B.BrushContents

MATS = ['tools/toolsnodraw', 'BRICK/BRICKWALL001A', 'dev/dev_measuregeneric01', 'nature/water_canals01', 'x' * 100, 'a/b']


def rf(r: Rng, kind='coord') -> float:
    x = r.random()
    if kind == 'coord':
        v = r.pick([0.0, 1.0, -1.0, 64.0, -4096.0, 0.5, r.randrange(-8192, 8192) / 8, r.uniform(-16384, 16384)]) if x < 0.9 else r.uniform(-1e6, 1e6)
    elif kind == 'unit':
        v = r.pick([0.0, 1.0, -1.0, 0.70710678, r.uniform(-1, 1)])
    else:
        v = r.pick([0.0, 1.0, 0.25, 16.0, -99999.0, r.uniform(-512, 512)])
    return f32(v)


def rv(r: Rng, kind='coord') -> Vec:
    return Vec(rf(r, kind), rf(r, kind), rf(r, kind))


def gen_texinfos(r: Rng, n: int):
    datas = [B.TexData(r.pick(MATS) if r.chance(0.8) else 'gen/' + ''.join(r.pick('abcXYZ_09') for _ in range(r.randrange(1, 20))),
                       rv(r, 'unit'), r.pick([0, 64, 512, 4096]), r.pick([0, 64, 1024])) for _ in range(max(1, n // 2 + 1))]
    # two TexData objects may share a material name; TexInfos share TexData objects
    res = []
    for _ in range(n):
        res.append(B.TexInfo(rv(r, 'unit'), rf(r, 'small'), rv(r, 'unit'), rf(r, 'small'), rv(r, 'unit'), rf(r, 'small'), rv(r, 'unit'), rf(r, 'small'),
                             SurfFlags(r.pick([0, 0x1, 0x80, 0x2000, 0x1 | 0x400, 1 << 15])), r.pick(datas)))
    return res


def gen_planes(r: Rng, n: int):
    return [B.Plane(rv(r, 'unit'), rf(r, 'coord')) for _ in range(n)]


def gen_vertexes(r: Rng, n: int):
    return [Vec(0.0, 0.0, 0.0)] + [rv(r) for _ in range(n)]


def gen_surfedges(r: Rng, verts, n: int):
    edges = [B.Edge(r.pick(verts), r.pick(verts)) for _ in range(max(1, n // 2 + 1))]
    res = []
    for _ in range(n):
        e = r.pick(edges)
        res.append(e.opposite if r.chance(0.35) else e)
    return res


def gen_primitives(r: Rng, n: int, wide=False):
    top = 3000000000 if wide else 60000
    return [B.Primitive(r.chance(0.5), [r.randrange(0, top) for _ in range(r.randrange(0, 6))], [rv(r) for _ in range(r.randrange(0, 4))]) for _ in range(n)]


def gen_face(r: Rng, planes, surfedges, texinfos, prims, orig=None, vitamin=False, wide=False):
    k = r.randrange(0, len(surfedges) + 1)
    ne = r.randrange(0, min(6, len(surfedges) - k) + 1)
    if vitamin:
        # VitaminSource stores plane, texinfo, dispinfo, edges, lightmap extents and its own flag byte; nothing else
        return B.Face(
            r.pick(planes), False, False, surfedges[k:k + ne], r.pick(texinfos) if texinfos and r.chance(0.95) else None,
            r.pick([-1, 0, 3]), 0, bytes(4), 0, 0.0,
            (r.randrange(-100, 100), r.randrange(-100, 100)), (r.randrange(0, 128), r.randrange(0, 128)), None,
            [], False, 0, None, r.pick([0, 1, 2, 128, 255]),
        )
    pk = r.randrange(0, len(prims) + 1)
    pn = r.randrange(0, min(3, len(prims) - pk) + 1)
    return B.Face(
        r.pick(planes), r.chance(0.5), r.chance(0.5), surfedges[k:k + ne], r.pick(texinfos) if texinfos and r.chance(0.95) else None,
        r.pick([-1, 0, 3]), r.pick([-1, 0, 2]), bytes([r.randrange(256) for _ in range(4)]), r.pick([-1, 0, 1024, 1 << 20]), rf(r, 'small'),
        (r.randrange(-100, 100), r.randrange(-100, 100)), (r.randrange(0, 128), r.randrange(0, 128)), orig,
        prims[pk:pk + pn], r.chance(0.5), r.pick([0, 1, 1 << 20]), r.randrange(0, 3000000000 if wide else 60000), 0,
    )


def gen_brushes(r: Rng, planes, texinfos, n: int, vitamin=False):
    extra = [0, 0, 2, 255, 1] if vitamin else [0, 0, 2, 0x8000 - 2]      # VitaminSource: a separate byte; otherwise the bits above the bevel flag
    sides = [B.BrushSide(r.pick(planes), r.pick(texinfos), r.pick([0, 0, 5]), r.chance(0.3), r.pick(extra)) for _ in range(n * 3 + 1)]
    res = []
    for _ in range(n):
        k = r.randrange(0, len(sides))
        res.append(B.Brush(BrushContents(r.pick([0, 1, 2, 0x20, 0x1 | 0x8000000])), sides[k:k + r.randrange(0, 7)]))
    return res


def gen_tree(r: Rng, planes, faces, brushes, depth: int, old_ambient: bool, area_bits: int, variant='std'):
    """Returns (nodes, leafs) with consistent cross references; nodes[0] is the root."""
    nodes, leafs = [], []
    frac = variant == 'chaos' and r.chance(0.5)      # Chaos stores node/leaf bounds as floats

    def bound(leaf_bound=False):
        if variant == 'vitamin' and leaf_bound:
            return Vec(*[float(r.randrange(0, 16384)) for _ in range(3)])       # unsigned on disk
        if frac:
            return Vec(*[f32(r.randrange(-16384 * 8, 16384 * 8) / 8) for _ in range(3)])
        return Vec(*[float(r.randrange(-16384, 16384)) for _ in range(3)])

    def leaf():
        fk = r.randrange(0, len(faces) + 1)
        bk = r.randrange(0, len(brushes) + 1)
        lf = B.VisLeaf(
            BrushContents(r.pick([0, 1, 0x20])), r.pick([-1, 0, 1, 2, 5]), r.randrange(0, 1 << ((16 if variant != 'chaos' else 31) - area_bits - 1)) if variant != 'vitamin' else r.randrange(0, 300),
            B.VisLeafFlags(r.randrange(0, 1 << min(area_bits, 7))), bound(True),
            bound(True),
            list(faces[fk:fk + r.randrange(0, 4)]) if r.chance(0.7) else ([r.pick(faces)] if faces else []),
            list(brushes[bk:bk + r.randrange(0, 3)]), r.pick([-1, 0, 1]),
            bytes([r.randrange(256) for _ in range(24)]) if old_ambient else bytes(24), r.pick([65535, 0, 100]))
        leafs.append(lf)
        return lf

    def node(d):
        fk = r.randrange(0, len(faces) + 1)
        n = B.VisTree(r.pick(planes), bound(), bound(), list(faces[fk:fk + r.randrange(0, 4)]), r.randrange(0, 300))
        nodes.append(n)
        n.child_neg = node(d + 1) if d < depth and r.chance(0.6) else leaf()
        n.child_pos = node(d + 1) if d < depth and r.chance(0.6) else leaf()
        return n
    node(0)
    return nodes, leafs


def gen_visibility(r: Rng, clusters: int):
    nbytes = (clusters + 7) // 8

    def row():
        x = r.random()
        if x < 0.2:
            return bytearray(nbytes)
        if x < 0.4:
            return bytearray([255] * nbytes)
        res = bytearray(nbytes)
        for i in range(nbytes):
            if r.chance(0.4):
                res[i] = r.randrange(1, 256)
        return res
    return B.Visibility([row() for _ in range(clusters)], [row() for _ in range(clusters)])


def gen_ents(r: Rng, comma: bool, nbrush: int):
    vmf = VMF()
    vmf.spawn['mapversion'] = str(r.randrange(1, 900))
    vmf.spawn['skyname'] = 'sky_day01_01'
    ents = []
    for i in range(r.randrange(nbrush, nbrush + 5)):
        e = vmf.create_ent(r.pick(['info_target', 'func_brush', 'logic_relay', 'prop_dynamic']),
                           origin=f'{r.randrange(-512, 512)} {r.randrange(-512, 512)} {r.randrange(-512, 512)}')
        if r.chance(0.5):
            e['targetname'] = r.pick(['relay', 'door', 'a b', 'quote"d', 'back\\slash', 'multi\nline'])
        if r.chance(0.3):
            e['message'] = r.pick(['a,b', 'x, y, z', 'one,two,three,four', 'tab\there', '1,2,3,4,5,6', 'relay,Trigger,,0,-1,9'])   # never exactly four commas: that is the reader's documented test for an old-style output
        for _ in range(r.randrange(0, 3)):
            # the separator of the file decides how an output is written, whatever the Output object itself was built with;
            # with the 0x1B separator a parameter may contain commas
            params = ['', '1', 'a b'] + ([] if comma else ['Setup(45,32)', 'a,b', ',', '1,2,3,4'])
            e.add_out(Output(r.pick(['OnTrigger', 'OnUser1']), r.pick(['relay', '!self', 'door']), r.pick(['Trigger', 'Kill']),
                             r.pick(params), f32(r.pick([0.0, 1.0, 0.5, 2.25])), times=r.pick([-1, 1]),
                             comma_sep=comma if r.chance(0.6) else not comma))
        ents.append(e)
    return vmf


def gen_bmodels(r: Rng, vmf: VMF, nodes, faces, nbrush: int):
    res = WeakKeyDictionary()

    def model():
        fk = r.randrange(0, len(faces) + 1)
        m = B.BModel(rv(r), rv(r), rv(r), r.pick(nodes), list(faces[fk:fk + r.randrange(0, 4)]))
        if r.chance(0.4):
            m.phys_keyvalues = Keyvalues.root(Keyvalues('solid', [Keyvalues('index', str(r.randrange(5))), Keyvalues('mass', '1.5')]),
                                              Keyvalues('materialtable', [Keyvalues('default', '0')]))
            m._phys_solids = [bytes([r.randrange(256) for _ in range(r.randrange(1, 40))]) for _ in range(r.randrange(0, 3))]
        return m
    res[vmf.spawn] = model()
    for e in vmf.entities[:nbrush]:
        res[e] = model()
    return res


def gen_overlays(r: Rng, texinfos, n: int):
    res = []
    for i in range(n):
        faces = [r.randrange(0, 70000) for _ in range(r.pick([0, 1, 3, 64]))]
        res.append(B.Overlay(r.randrange(0, 1 << 20), rv(r), rv(r, 'unit'), r.pick(texinfos), len(faces), faces, r.randrange(4),
                             rf(r, 'unit'), rf(r, 'unit'), rf(r, 'unit'), rf(r, 'unit'), rv(r, 'small'), rv(r, 'small'), rv(r, 'small'), rv(r, 'small'),
                             f32(r.pick([-1.0, 100.0])), f32(r.pick([0.0, 2500.0])), r.randrange(0, 4), r.randrange(0, 4), r.randrange(0, 4), r.randrange(0, 4)))
    return res


def gen_props(r: Rng, version, leafs, n: int):
    vn = 7 if version.is_lightmap else version.version
    res = []
    for _ in range(n):
        p = B.StaticProp('models/' + r.pick(['props/a.mdl', 'b.mdl', 'X/Y/Z.MDL', 'p' * 100 + '.mdl']), rv(r),
                         Angle(f32(r.uniform(0, 359)), f32(r.uniform(0, 359)), f32(r.uniform(0, 359))))
        p.visleafs = set(r.sample(leafs, r.randrange(0, min(4, len(leafs)) + 1))) if leafs else set()
        p.solidity = r.pick([0, 2, 6])
        p.skin = r.pick([0, 1, -1, 7])
        p.min_fade, p.max_fade = f32(r.pick([-1.0, 0.0, 500.0])), f32(r.pick([0.0, 1000.0]))
        p.lighting = rv(r)
        p.fade_scale = f32(r.pick([1.0, 0.5, 2.0])) if vn >= 5 else 1
        flags = r.randrange(0, 256)
        if version.is_lightmap:
            flags = r.randrange(0, 1 << 12)
        if vn >= 10 or version is B.StaticPropVersion.V_LIGHTMAP_MESA:
            flags |= r.randrange(0, 8) << 8
        p.flags = B.StaticPropFlags(flags)
        if vn in (6, 7):
            p.min_dx_level, p.max_dx_level = r.pick([0, 80]), r.pick([0, 95])
        if vn >= 8:
            p.min_cpu_level, p.max_cpu_level, p.min_gpu_level, p.max_gpu_level = (r.randrange(0, 4) for _ in range(4))
        if version.is_lightmap:
            p.lightmap_x, p.lightmap_y = r.pick([32, 64, 1024]), r.pick([32, 16])
        if vn >= 7 and not version.is_sdk_2013:
            p.tint = Vec(float(r.randrange(256)), float(r.randrange(256)), float(r.randrange(256)))
            p.renderfx = r.randrange(256)
        if vn >= 9 and not version.is_lightmap:
            p.disable_on_xbox = r.chance(0.3)
        if version is B.StaticPropVersion.V_CHAOS_V13:
            p.scaling = Vec(f32(r.pick([1.0, 2.0, 0.5])), f32(r.pick([1.0, 3.0])), f32(r.pick([1.0, 0.25])))
        elif vn >= 11:
            s = f32(r.pick([1.0, 2.0, 0.5]))
            p.scaling = Vec(s, s, s)
        res.append(p)
    return res


def gen_detail(r: Rng, n: int):
    res = []
    for _ in range(n):
        common = (rv(r), Angle(f32(r.uniform(0, 359)), f32(r.uniform(0, 359)), 0.0), B.DetailPropOrientation(r.randrange(3)), r.randrange(0, 60000),
                  (r.randrange(256), r.randrange(256), r.randrange(256), r.randrange(256)), (r.randrange(0, 1000), r.randrange(0, 4)), r.randrange(256))
        k = r.randrange(3)
        dims = ((f32(r.uniform(-8, 0)), f32(r.uniform(0, 8))), (f32(r.uniform(0, 8)), f32(r.uniform(-8, 0))),
                (f32(r.random()), f32(r.random())), (f32(r.random()), f32(r.random())))
        if k == 0:
            res.append(B.DetailPropModel(*common, 'models/detail/' + r.pick(['a.mdl', 'b.mdl'])))
        elif k == 1:
            res.append(B.DetailPropSprite(*common, f32(r.pick([1.0, 0.5, 2.0])), *dims))
        else:
            res.append(B.DetailPropShape(*common, f32(r.pick([1.0, 0.5])), *dims, r.chance(0.5), r.randrange(256), r.randrange(256)))
    return res


PROP_VERSIONS = [v for v in B.StaticPropVersion if v is not B.StaticPropVersion.UNKNOWN]


def populate(b: BSP, r: Rng, groups) -> dict:
    """Assign seeded well-formed values to the selected groups of views.  Returns notes about what was generated."""
    notes = {'groups': sorted(groups)}
    vitamin = b.is_vitamin
    old_ambient = (not vitamin) and b.version <= 19
    area_bits = b.lump_layout['LEAF_AREA_OFFSET']
    texinfos = None
    if 'tex' in groups or groups & {'faces', 'brushes', 'water', 'overlays'}:
        texinfos = gen_texinfos(r, r.randrange(1, 6))
        b.textures = sorted({t.mat for t in texinfos}, key=str.casefold)
        b.texinfo = list(texinfos)
    planes = None
    if 'planes' in groups or groups & {'faces', 'brushes', 'tree'}:
        planes = gen_planes(r, r.randrange(1, 6))
        b.planes = list(planes)
    faces = []
    if 'edges' in groups or 'faces' in groups:
        verts = gen_vertexes(r, r.randrange(1, 8))
        b.vertexes = verts
        b.surfedges = gen_surfedges(r, verts, r.randrange(0, 12))
    variant = variant_of(b.version.value if isinstance(b.version, B.VERSIONS) else int(b.version))
    notes['variant'] = variant
    wide = variant == 'chaos'
    if ('prims' in groups or 'faces' in groups) and not vitamin:
        b.primitives = gen_primitives(r, r.randrange(0, 4), wide=wide)
    if 'faces' in groups and vitamin:
        faces = [gen_face(r, planes, b.surfedges, texinfos, [], vitamin=True) for _ in range(r.randrange(1, 6))]
        b.faces = faces
    elif 'faces' in groups:
        origs = [gen_face(r, planes, b.surfedges, texinfos, b.primitives) for _ in range(r.randrange(1, 4))]
        for o in origs:
            o.hammer_id = None
            o.texinfo = None
        b.orig_faces = origs
        faces = [gen_face(r, planes, b.surfedges, texinfos, b.primitives, orig=r.pick(origs), wide=wide) for _ in range(r.randrange(1, 6))]
        for f in faces:
            # the reader copies the split face's texinfo and hammer id onto its original face
            f.orig_face.texinfo = f.texinfo
            f.orig_face.hammer_id = f.hammer_id
        # faces sharing an original face must agree with what the reader will put there: keep the last writer
        last = {}
        for f in faces:
            last[id(f.orig_face)] = f
        b.faces = faces
        if r.chance(0.4):
            # the HDR face array runs parallel to the LDR one (same originals and Hammer IDs, different lighting)
            hdr = []
            for f in faces:
                h = gen_face(r, planes, b.surfedges, texinfos, b.primitives, orig=f.orig_face)
                h.hammer_id = f.hammer_id
                h.texinfo = f.texinfo
                hdr.append(h)
            b.hdr_faces = hdr
            notes['hdr'] = True
    brushes = []
    if 'brushes' in groups:
        brushes = gen_brushes(r, planes, texinfos, r.randrange(1, 4), vitamin=vitamin)
        b.brushes = brushes
    if 'tree' in groups:
        if 'faces' not in groups:
            faces = list(b.faces)
        if 'brushes' not in groups:
            brushes = list(b.brushes)
        nodes, leafs = gen_tree(r, planes, faces, brushes, r.randrange(0, 3), old_ambient, area_bits, variant)
        b.nodes = nodes
        b.visleafs = leafs
    if 'water' in groups:
        b.water_leaf_info = [B.LeafWaterInfo(rf(r), rf(r), r.pick(texinfos)) for _ in range(r.randrange(1, 4))]
    if 'vis' in groups:
        b.visibility = gen_visibility(r, r.pick([1, 7, 8, 9, 64, 300, 2100])) if r.chance(0.9) else None
    if 'cubemaps' in groups:
        b.cubemaps = [B.Cubemap(Vec(float(r.randrange(-16384, 16384)), float(r.randrange(-16384, 16384)), float(r.randrange(-16384, 16384))),
                                r.randrange(0, 14)) for _ in range(r.randrange(0, 5))]
    if 'overlays' in groups:
        b.overlays = gen_overlays(r, texinfos, r.randrange(1, 4))
    if 'ents' in groups or 'bmodels' in groups:
        comma = r.chance(0.4)
        nbrush = r.randrange(0, 3) if 'bmodels' in groups else 0
        vmf = gen_ents(r, comma, nbrush)
        b.out_comma_sep = comma
        b.ents = vmf
        if 'bmodels' in groups:
            nodes = list(b.nodes)
            b.bmodels = gen_bmodels(r, vmf, nodes, list(b.faces), nbrush)
    if 'props' in groups:
        allowed = [v for v in PROP_VERSIONS if (v in (B.StaticPropVersion.V_CHAOS_V12, B.StaticPropVersion.V_CHAOS_V13)) == (b.version is B.VERSIONS.CHAOSSOURCE)]
        # v11 props in a v20 map are read as Black Mesa's variant (by design of the format detection), and vice versa
        mesa = B.StaticPropVersion.V_LIGHTMAP_MESA
        allowed = [v for v in allowed if (v is not B.StaticPropVersion.V11 if b.version is B.VERSIONS.VER_20 else v is not mesa)]
        ver = r.pick(allowed)
        b.static_prop_version = ver
        b.game_lumps[B.LMP_ID_STATIC_PROPS].version = ver.version
        leafs = list(b.visleafs)
        b.props = gen_props(r, ver, leafs, r.randrange(1, 5))
        notes['prop_version'] = ver.name
    if 'detail' in groups:
        b.detail_props = gen_detail(r, r.randrange(1, 6))
    if 'pak' in groups:
        buf = io.BytesIO()
        z = zipfile.ZipFile(buf, 'a')
        for i in range(r.randrange(0, 4)):
            z.writestr(f'materials/gen/f{i}.vmt', bytes([r.randrange(256) for _ in range(r.randrange(0, 300))]))
        b.pakfile = z
    return notes


ALL_GROUPS = ['tex', 'planes', 'edges', 'prims', 'faces', 'brushes', 'tree', 'water', 'vis', 'cubemaps', 'overlays', 'ents', 'bmodels', 'props',
              'detail', 'pak']

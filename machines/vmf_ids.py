"""C08 — IDs handed out inside one VMF are unique per kind and never reused while live.

History machine with the E3 heap engine: the harness owns every reference it obtains from the
library (an indexed pool), runs with the cyclic collector disabled, and makes "drop pool slot k"
and "collect now" scheduled steps — so *when* a finalizer (Entity/Solid/Side.__del__ release
their IDs) runs relative to removals and later allocations is decided by the seeded scheduler."""
from __future__ import annotations

import gc

from sim.core import Outcome, Rng
from machines import vmfgen as G

from srctools import vmf as V
from srctools.vmf import VMF, Entity, Solid, Side, VisGroup, EntityGroup, EntityFixup, FixupValue
from srctools.keyvalues import Keyvalues
from srctools.math import Vec

PROP = 'C08'
LEVEL = 'exploration'
RUNS = {'quick': 30000, 'thorough': 3500000}
BATCH = {'quick': 300, 'thorough': 3000}
BUDGET_S = {'quick': 60.0, 'thorough': 1500.0}
RULE = ('one run = one seeded history (5-50 steps) over two maps: creation of entities / solids / sides / prisms / visgroups / '
        'groups with desired IDs from {-5..0, small positives, duplicates of live IDs, huge}, copy() within and across '
        'maps, add/remove/re-add of entities and brushes, nodeid edits, fixup set/delete/construct/copy, export+parse, '
        'parsing generated documents with duplicated/zero/negative/missing IDs, collapsing generated instance maps (IDs numbered from 1, so colliding) into the map, and heap events (drop a pool reference, '
        'collect) with a seeded GC policy. The invariant (per kind: IDs of live objects pairwise distinct and positive) '
        'is evaluated after every step. Non-trivial: >=1 ID released and >=1 allocated afterwards, or >=1 desired-ID '
        'collision. distinct = distinct event-log digest.')
STATE_MEASURE = 'distinct (kind, how the ID was obtained, release events since) classes and finalizer-schedule classes (finalizer before / between / after re-issue)'
REAL_VS_STUB = {
    'real': ['srctools.vmf.IDMan, Entity/Solid/Side/VisGroup/EntityGroup constructors and __del__, VMF.add_ent/remove_ent, '
             'EntityFixup, VMF.export/parse'],
    'stub': ['the heap schedule: harness-owned references, gc.disable(), explicit drop/collect steps'],
}
ASSUMPTIONS = ['live = reachable from the VMF (entities+spawn, their solids and sides, world brushes, visgroup tree, groups) or held '
               'in the harness pool and never removed', 'maps opened with preserve_ids=True are exempt and not generated',
               '<= 99 fixups per entity (two-digit key)', 'CPython reference counting makes finalizers of acyclic garbage run at the drop step']

DES = [-5, -1, -1, -1, 0, 1, 2, 3, 3, 7, 10 ** 6]
_ENGINE_CACHE: dict = {}      # instancing's per-class FGD lookups; content depends only on the class name


def gen(rng: Rng, tier: str, index: int) -> dict:
    r = rng.child('hist')
    policy = r.pick(['eager', 'lazy', 'never'])
    n = r.randrange(5, 20) if r.chance(0.65) else r.randrange(20, 50)
    steps = []
    ops = [('ent', 14), ('ent_loose', 4), ('solid', 8), ('prism', 4), ('side', 3), ('visgroup', 3), ('group', 3),
           ('copy_ent', 6), ('copy_solid', 4), ('copy_side', 3), ('remove_ent', 10), ('readd_ent', 5), ('remove_brush', 4),
           ('readd_brush', 2), ('drop', 10 if policy != 'never' else 0), ('collect', 3 if policy != 'never' else 0),
           ('nodeid', 6), ('del_nodeid', 2), ('fixup_set', 5), ('fixup_del', 3), ('fixup_init', 3), ('fixup_copy', 2),
           ('export_parse', 2), ('parse_doc', 3), ('collapse', 4)]
    ops = [(o, w) for o, w in ops if w and r.chance(0.8)] or [('ent', 1), ('remove_ent', 1), ('drop', 1)]
    for _ in range(n):
        op = r.wpick(ops)
        m = 0 if r.chance(0.8) else 1
        i = r.randrange(12)
        if op in ('ent', 'ent_loose'):
            steps.append([op, m, r.pick(DES), r.pick([None, None, 1, 2, 3]) ])
        elif op == 'solid':
            steps.append([op, m, r.pick(DES), [r.pick(DES) for _ in range(r.randrange(1, 4))], r.pick(['world', 'ent', 'loose']), i])
        elif op == 'prism':
            steps.append([op, m, r.pick(['world', 'ent']), i])
        elif op == 'side':
            steps.append([op, m, r.pick(DES)])
        elif op in ('visgroup', 'group'):
            steps.append([op, m, r.pick(DES)])
        elif op in ('copy_ent', 'copy_solid', 'copy_side'):
            steps.append([op, i, r.pick([None, 0, 1]), r.pick(DES), r.chance(0.8)])
        elif op in ('remove_ent', 'readd_ent', 'remove_brush', 'readd_brush'):
            steps.append([op, i])
        elif op == 'drop':
            steps.append([op, r.pick(['ent', 'ent', 'solid', 'side']), i])
        elif op == 'collect':
            steps.append([op])
        elif op == 'nodeid':
            steps.append([op, i, r.pick(['1', '2', '2', '3', '7', 'x', '0', '-1'])])
        elif op == 'del_nodeid':
            steps.append([op, i])
        elif op == 'fixup_set':
            steps.append([op, i, r.pick(['a', 'b', 'c', 'A', '$d', 'e']), 'v' + str(r.randrange(9))])
        elif op == 'fixup_del':
            steps.append([op, i, r.pick(['a', 'b', 'c', 'A', '$d'])])
        elif op == 'fixup_init':
            steps.append([op, i, [[r.pick(['a', 'b', 'c', 'd', 'E']), 'x', r.pick([1, 1, 2, 2, 3, 0, -1, 50])] for _ in range(r.randrange(1, 5))]])
        elif op == 'fixup_copy':
            steps.append([op, i])
        elif op == 'export_parse':
            steps.append([op, m])
        elif op == 'parse_doc':
            steps.append([op, m, _gen_doc(r)])
        elif op == 'collapse':
            steps.append([op, m, _gen_template(r), r.pick([0, 1, 2]), r.chance(0.5)])
        if policy == 'eager' and op in ('remove_ent', 'remove_brush') and r.chance(0.7):
            steps.append(['drop', 'ent' if op == 'remove_ent' else 'solid', i])
    return {'steps': steps, 'policy': policy}


def _gen_doc(r: Rng) -> str:
    """A VMF document whose IDs collide, are zero, negative or missing."""
    def idline(kind):
        x = r.random()
        if x < 0.2:
            return ''
        return f'\t"id" "{r.pick([0, 1, 1, 2, 2, 3, -4, 5, 99])}"\n'
    out = ['versioninfo\n{\n\t"formatversion" "100"\n}\n']
    out.append('visgroups\n{\n')
    for _ in range(r.randrange(0, 3)):
        out.append(f'\tvisgroup\n\t{{\n\t\t"name" "g"\n\t\t"visgroupid" "{r.pick([0, 1, 1, 2, -1])}"\n\t}}\n')
    out.append('}\n')

    def solid(ind):
        s = f'{ind}solid\n{ind}{{\n{ind}' + idline('solid').strip('\n') + '\n'
        for _ in range(r.randrange(1, 3)):
            s += f'{ind}\tside\n{ind}\t{{\n{ind}\t' + idline('side').strip('\n') + f'\n{ind}\t\t"plane" "(0 0 0) (1 0 0) (1 1 0)"\n{ind}\t}}\n'
        return s + f'{ind}}}\n'
    out.append('world\n{\n' + idline('ent') + '\t"classname" "worldspawn"\n')
    for _ in range(r.randrange(0, 3)):
        out.append(solid('\t'))
    for _ in range(r.randrange(0, 2)):
        out.append(f'\tgroup\n\t{{\n\t\t"id" "{r.pick([0, 1, 1, 2])}"\n\t}}\n')
    out.append('}\n')
    for _ in range(r.randrange(0, 4)):
        out.append('entity\n{\n' + idline('ent') + '\t"classname" "info_node"\n')
        if r.chance(0.5):
            out.append(f'\t"nodeid" "{r.pick([1, 1, 2, 3])}"\n')
        for _ in range(r.randrange(0, 3)):
            out.append(f'\t"replace{r.pick(["01", "01", "02", "00", "07"])}" "${r.pick("abcd")} val"\n')
        if r.chance(0.3):
            out.append(solid('\t'))
        out.append('}\n')
    return ''.join(out)


def _gen_template(r: Rng) -> str:
    """A well-formed instance map (IDs unique inside the file, numbered from 1 like every file Hammer writes, so they
    collide with the IDs already live in the map it is collapsed into)."""
    ids = {'e': 0, 's': 0, 'f': 0}

    def nxt(k):
        ids[k] += 1
        return ids[k]

    def solid(ind):
        s = f'{ind}solid\n{ind}{{\n{ind}\t"id" "{nxt("s")}"\n'
        for _ in range(r.randrange(1, 3)):
            s += (f'{ind}\tside\n{ind}\t{{\n{ind}\t\t"id" "{nxt("f")}"\n{ind}\t\t"plane" "(0 0 0) (1 0 0) (1 1 0)"\n'
                  f'{ind}\t\t"material" "tools/toolsnodraw"\n{ind}\t\t"uaxis" "[1 0 0 0] 0.25"\n{ind}\t\t"vaxis" "[0 -1 0 0] 0.25"\n{ind}\t}}\n')
        return s + f'{ind}}}\n'
    out = ['versioninfo\n{\n\t"formatversion" "100"\n}\n']
    out.append(f'world\n{{\n\t"id" "{nxt("e")}"\n\t"classname" "worldspawn"\n')
    for _ in range(r.randrange(0, 3)):
        out.append(solid('\t'))
    out.append('}\n')
    node = 0
    for _ in range(r.randrange(0, 4)):
        cls = r.pick(['info_node', 'info_target', 'func_detail', 'func_instance_parms'])
        out.append(f'entity\n{{\n\t"id" "{nxt("e")}"\n\t"classname" "{cls}"\n\t"origin" "0 0 0"\n')
        if cls == 'info_node':
            node += 1
            out.append(f'\t"nodeid" "{node}"\n')
        if cls == 'info_target' and r.chance(0.5):
            out.append('\t"targetname" "tgt"\n')
        if cls == 'func_detail':
            out.append(solid('\t'))
        out.append('}\n')
    return ''.join(out)


# ------------------------------------------------------------------ invariant
def _live_ids(vmf: VMF, pool, removed):
    """kind -> list of (id, description) for live objects of this map."""
    ents, solids, sides = [], [], []
    seen = set()

    def add_ent(e, how):
        if id(e) in seen:
            return
        seen.add(id(e))
        ents.append((e.id, how))
        for s in e.solids:
            add_solid(s, how + '>solid')

    def add_solid(s, how):
        if id(s) in seen:
            return
        seen.add(id(s))
        solids.append((s.id, how))
        for sd in s.sides:
            add_side(sd, how + '>side')

    def add_side(sd, how):
        if id(sd) in seen:
            return
        seen.add(id(sd))
        sides.append((sd.id, how))
    add_ent(vmf.spawn, 'spawn')
    for e in vmf.entities:
        add_ent(e, 'in-map')
    for s in vmf.brushes:
        add_solid(s, 'world')
    for kind, lst in pool.items():
        for obj in lst:
            if obj is None or id(obj) in removed:
                continue
            owner = getattr(obj, 'map', None)
            if owner is not vmf:
                continue
            if kind == 'ent':
                add_ent(obj, 'pool')
            elif kind == 'solid':
                add_solid(obj, 'pool')
            elif kind == 'side':
                add_side(obj, 'pool')
    vis = []

    def walk_vis(v):
        vis.append((v.id, 'tree'))
        for c in v.child_groups:
            walk_vis(c)
    for v in vmf.vis_tree:
        walk_vis(v)
    groups = [(g.id, 'groups') for g in vmf.groups.values()]
    nodes = []
    for e in vmf.entities:
        if 'nodeid' in e:
            try:
                nodes.append((int(e['nodeid']), 'in-map'))
            except ValueError:
                pass
    return {'entity': ents, 'solid': solids, 'face': sides, 'visgroup': vis, 'group': groups, 'node': nodes}


def _check(out: Outcome, maps, pool, removed, si, st, origin):
    for mi, vmf in enumerate(maps):
        live = _live_ids(vmf, pool, removed)
        for kind, lst in live.items():
            seen = {}
            for ident, how in lst:
                if not isinstance(ident, int) or isinstance(ident, bool) or ident <= 0:
                    out.violate('non-positive-id', f'{kind}|{origin.get((kind, ident), "?")}',
                                f'step {si} {st}: map {mi} has a live {kind} with ID {ident!r} ({how})')
                    continue
                if ident in seen:
                    out.violate(f'dup-{kind}-id', _dup_culprit(origin, kind, mi, ident, how, seen[ident]),
                                f'step {si} {st}: map {mi}: two live {kind} objects share ID {ident} ({seen[ident]} and {how})')
                seen[ident] = how
        # fixup indexes within each entity
        for e in [vmf.spawn] + list(vmf.entities):
            if e._fixup is not None:
                ids = [f.id for f in e._fixup._fixup.values()]
                if len(set(ids)) != len(ids):
                    out.violate('dup-fixup-index', origin.get(('fixup', id(e)), 'unknown'), f'step {si} {st}: entity {e.id} has fixup indexes {sorted(ids)}')
                if any((not isinstance(i, int)) or i < 1 for i in ids):
                    out.violate('non-positive-id', f'fixup|{origin.get(("fixup", id(e)), "unknown")}',
                                f'step {si} {st}: entity {e.id} has fixup indexes {sorted(ids)}')


def _dup_culprit(origin, kind, mi, ident, how_a, how_b):
    hist = origin.get(('hist', kind, mi, ident), [])
    return '|'.join(hist[-4:]) or f'{how_b}+{how_a}'


def run(case: dict) -> Outcome:
    out = Outcome()
    maps = [VMF(), VMF()]
    pool = {'ent': [], 'solid': [], 'side': [], 'vis': [], 'group': []}
    removed = set()       # id() of pool objects removed from their map (not live until re-added)
    origin = {}
    released = 0
    alloc_after_release = False

    def note(kind, mi, ident, what):
        origin.setdefault(('hist', kind, mi, ident), []).append(what)

    def mi_of(vmf):
        for i, m in enumerate(maps):
            if m is vmf:
                return i
        return -1

    def slot(kind, i):
        lst = pool[kind]
        if not lst:
            return None, -1
        k = i % len(lst)
        return lst[k], k

    for si, st in enumerate(case['steps']):
        op = st[0]
        out.steps += 1
        obj = None
        try:
            if op in ('ent', 'ent_loose'):
                _, m, des, node = st
                vmf = maps[m]
                keys = {'classname': 'info_node' if node else 'info_target'}
                if node:
                    keys['nodeid'] = str(node)
                collide = des > 0 and des in vmf.ent_id
                obj = Entity(vmf, keys=keys, ent_id=des)
                if op == 'ent':
                    vmf.add_ent(obj)
                pool['ent'].append(obj)
                note('entity', m, obj.id, 'desired-collision' if collide else ('desired' if des > 0 else 'fresh'))
                if collide:
                    out.nontrivial = True
                if released:
                    alloc_after_release = True
            elif op == 'solid':
                _, m, des, side_des, where, i = st
                vmf = maps[m]
                sides = [Side(vmf, [Vec(0, 0, 0), Vec(1, 0, 0), Vec(1, 1, 0)], d) for d in side_des]
                collide = des > 0 and des in vmf.solid_id
                obj = Solid(vmf, des, sides)
                for sd in sides:
                    note('face', m, sd.id, 'fresh')
                note('solid', m, obj.id, 'desired-collision' if collide else 'fresh')
                if collide:
                    out.nontrivial = True
                pool['solid'].append(obj)
                if where == 'world':
                    vmf.add_brush(obj)
                elif where == 'ent':
                    e, _k = slot('ent', i)
                    if e is not None and e.map is vmf:
                        e.solids.append(obj)
                    else:
                        vmf.add_brush(obj)
                if released:
                    alloc_after_release = True
            elif op == 'prism':
                _, m, where, i = st
                vmf = maps[m]
                pf = vmf.make_prism(Vec(0, 0, 0), Vec(8, 8, 8))
                obj = pf.solid
                pool['solid'].append(obj)
                note('solid', m, obj.id, 'prism')
                if where == 'world':
                    vmf.add_brush(obj)
                else:
                    e, _k = slot('ent', i)
                    if e is not None and e.map is vmf:
                        e.solids.append(obj)
                    else:
                        vmf.add_brush(obj)
                pf = None
            elif op == 'side':
                _, m, des = st
                obj = Side(maps[m], [Vec(0, 0, 0), Vec(1, 0, 0), Vec(1, 1, 0)], des)
                pool['side'].append(obj)
                note('face', m, obj.id, 'fresh')
            elif op == 'visgroup':
                _, m, des = st
                obj = VisGroup(maps[m], 'vg', des)
                maps[m].vis_tree.append(obj)
                note('visgroup', m, obj.id, 'fresh')
            elif op == 'group':
                _, m, des = st
                obj = EntityGroup(maps[m], des)
                maps[m].groups[obj.id] = obj
                note('group', m, obj.id, 'fresh')
            elif op in ('copy_ent', 'copy_solid', 'copy_side'):
                _, i, tm, des, add = st
                kind = op[5:]
                src, _k = slot(kind, i)
                if src is None:
                    continue
                target = None if tm is None else maps[tm]
                if kind == 'ent':
                    obj = src.copy(des_id=des, vmf_file=target)
                    if add:
                        obj.map.add_ent(obj)
                    note('entity', mi_of(obj.map), obj.id, 'copy')
                elif kind == 'solid':
                    obj = src.copy(des_id=des, vmf_file=target)
                    if add:
                        obj.map.add_brush(obj)
                    note('solid', mi_of(obj.map), obj.id, 'copy')
                else:
                    obj = src.copy(des_id=des, vmf_file=target)
                    note('face', mi_of(obj.map), obj.id, 'copy')
                pool[kind].append(obj)
                src = None
                if released:
                    alloc_after_release = True
            elif op == 'remove_ent':
                e, _k = slot('ent', st[1])
                if e is not None and any(e is x for x in e.map.entities):
                    e.map.remove_ent(e)
                    removed.add(id(e))
                    note('entity', mi_of(e.map), e.id, 'remove_ent')
                    released += 1
                e = None
            elif op == 'readd_ent':
                e, _k = slot('ent', st[1])
                if e is not None and id(e) in removed:
                    e.map.add_ent(e)
                    removed.discard(id(e))
                    note('entity', mi_of(e.map), e.id, 're-add')
                e = None
            elif op == 'remove_brush':
                s, _k = slot('solid', st[1])
                if s is not None and any(s is x for x in s.map.brushes):
                    s.map.remove_brush(s)
                    removed.add(id(s))
                    note('solid', mi_of(s.map), s.id, 'remove_brush')
                s = None
            elif op == 'readd_brush':
                s, _k = slot('solid', st[1])
                if s is not None and id(s) in removed:
                    s.map.add_brush(s)
                    removed.discard(id(s))
                    note('solid', mi_of(s.map), s.id, 're-add')
                s = None
            elif op == 'drop':
                kind = st[1]
                o, k = slot(kind, st[2])
                if o is not None:
                    inmap = (kind == 'ent' and any(o is x for x in o.map.entities)) or \
                            (kind == 'solid' and (any(o is x for x in o.map.brushes) or any(o is s for e in o.map.entities for s in e.solids)))
                    ident = o.id
                    m = mi_of(o.map)
                    removed.discard(id(o))
                    o = None
                    pool[kind][k] = None     # last harness reference: __del__ runs now unless the map still holds it
                    if not inmap:
                        note({'ent': 'entity', 'solid': 'solid', 'side': 'face'}[kind], m, ident, '__del__')
                        released += 1
                        out.stats['finalizers_by_drop'] += 1
            elif op == 'collect':
                n = gc.collect()
                out.stats['collect_steps'] += 1
            elif op == 'nodeid':
                e, _k = slot('ent', st[1])
                if e is not None:
                    e['nodeid'] = st[2]
                e = None
            elif op == 'del_nodeid':
                e, _k = slot('ent', st[1])
                if e is not None:
                    del e['nodeid']
                e = None
            elif op in ('fixup_set', 'fixup_del', 'fixup_init', 'fixup_copy'):
                e, _k = slot('ent', st[1])
                if e is None:
                    continue
                if op == 'fixup_set':
                    e.fixup[st[2]] = st[3]
                    origin[('fixup', id(e))] = origin.get(('fixup', id(e)), '') + '>set'
                elif op == 'fixup_del':
                    del e.fixup[st[2]]
                    origin[('fixup', id(e))] = origin.get(('fixup', id(e)), '') + '>del'
                elif op == 'fixup_init':
                    e._fixup = EntityFixup([FixupValue(v, val, i) for v, val, i in st[2]])
                    origin[('fixup', id(e))] = 'init:' + ('nonpos' if any(i < 1 for _v, _x, i in st[2]) else 'dups')
                else:
                    c = e.copy()
                    c.map.add_ent(c)
                    pool['ent'].append(c)
                    origin[('fixup', id(c))] = origin.get(('fixup', id(e)), '') + '>copy'
                    c = None
                e = None
            elif op in ('export_parse', 'parse_doc'):
                m = st[1]
                if op == 'export_parse':
                    text = maps[m].export(inc_version=False)
                else:
                    text = st[2]
                new = VMF.parse(Keyvalues.parse(text))
                maps.append(maps[m])       # the old map object stays alive and is still checked
                maps[m] = new
                for e in new.entities:
                    origin[('fixup', id(e))] = 'parse'
                    note('entity', m, e.id, 'parse')
                if len(maps) > 5:
                    del maps[2]
                new = None
                if op == 'parse_doc':
                    out.nontrivial = True
            elif op == 'collapse':
                from srctools.instancing import InstanceFile, collapse_one
                _, m, text, style, named = st
                vmf = maps[m]
                tmpl = VMF.parse(Keyvalues.parse(text), preserve_ids=True)
                from srctools.instancing import Instance, FixupStyle
                from srctools.math import Matrix, Angle
                inst = Instance('inst' if named else '', 't.vmf', Vec(64, 0, 0), Matrix.from_angle(Angle(0, 90, 0)), FixupStyle(style), [], [])
                before_e = {id(e) for e in vmf.entities}
                collapse_one(vmf, inst, InstanceFile(tmpl), engine_cache=_ENGINE_CACHE)
                for e in vmf.entities:
                    if id(e) not in before_e:
                        note('entity', m, e.id, 'collapse')
                        origin[('fixup', id(e))] = 'collapse'
                out.stats['collapses'] += 1
                tmpl = inst = None
                if released:
                    alloc_after_release = True
        except Exception as exc:
            out.violate('op-raised', f'{op}|{type(exc).__name__}', f'step {si} {st} raised {exc!r}')
            out.event(si, op, 'raised', type(exc).__name__)
            break
        obj = None
        _check(out, maps, pool, removed, si, st, origin)
        out.event(si, op, [sorted(m.ent_id)[:12] for m in maps[:2]], [sorted(m.solid_id)[:12] for m in maps[:2]],
                  [sorted(m.face_id)[:12] for m in maps[:2]])
        if out.viol:
            break
    if released and alloc_after_release:
        out.nontrivial = True
    out.states.add(f'policy:{case["policy"]}')
    for k, v in origin.items():
        if k[0] == 'hist' and len(v) > 1:
            out.states.add(f'{k[1]}:' + '>'.join(v[-3:]))
    out.sample = {'policy': case['policy'], 'steps': [s if s[0] not in ('parse_doc', 'collapse') else [s[0], s[1], '<document>'] + s[3:] for s in case['steps'][:30]]}
    # release everything the run created (between runs; outside the judged history)
    pool.clear()
    maps.clear()
    return out


def simplify(case: dict):
    steps = case['steps']
    for i, st in enumerate(steps):
        if st[0] in ('ent', 'ent_loose') and (st[2] != -1 or st[3] is not None):
            yield dict(case, steps=steps[:i] + [[st[0], st[1], -1, None]] + steps[i + 1:])
        if st[0] in ('ent', 'ent_loose', 'solid', 'prism', 'side', 'visgroup', 'group') and st[1] != 0:
            ns = list(st)
            ns[1] = 0
            yield dict(case, steps=steps[:i] + [ns] + steps[i + 1:])
        if st[0] == 'collapse' and (st[3] or st[4]):
            yield dict(case, steps=steps[:i] + [[st[0], st[1], st[2], 0, False]] + steps[i + 1:])
        if st[0] == 'parse_doc':
            lines = st[2].split('\n')
            for k in range(len(lines)):
                yield dict(case, steps=steps[:i] + [[st[0], st[1], '\n'.join(lines[:k] + lines[k + 1:])]] + steps[i + 1:])

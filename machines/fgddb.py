"""C16 — FGD definitions survive text export, binary database, and lazy loading.

History part (what the technique decides): a fresh lazily-parsed engine database receives a
seeded order of one-at-a-time lookups (existing, alias, unknown, mixed case), interleaved full
loads and mutations of the copies it hands out; every answer must equal the definition obtained
from a database that was loaded in full first.

Round-trip part (rides on E1/E2, input-sampled): generated FGDs and the complete shipped
database: export -> simulated disk -> chunked parse -> observation equal up to the documented
I/O type decay; export again equals the first text; serialise -> unserialise equal."""
from __future__ import annotations

import copy
import io

from sim.core import Outcome, Rng
from sim import simfs
from sim.simfs import SimFS
from machines.vmfgen import diff, generic_path

import srctools
from srctools import fgd as F
from srctools import _engine_db as E
from srctools.fgd import FGD, EntityDef, EntityTypes, ValueTypes, KVDef, IODef, Resource, VALUE_TO_IO_DECAY
from srctools.filesys import RawFileSystem
from srctools.const import FileType

PROP = 'C16'
LEVEL = 'exploration'
RUNS = {'quick': 2400, 'thorough': 150000}
BATCH = {'quick': 40, 'thorough': 400}
BUDGET_S = {'quick': 80.0, 'thorough': 1500.0}
RESET_FGD = True
RULE = ('run 0 = text export/parse/export of the complete bundled engine database; run 1 = binary serialise/unserialise of it; '
        '85% of the other runs = a seeded history (3-25 steps) on a fresh lazily-parsed EngineDB: get_ent / '
        'EntityDef.engine_def for existing, alias, unknown and mixed-case names, get_classnames, interleaved get_fgd full '
        'loads, mutation of returned copies; 15% = a generated FGD (every value type, empty display names / defaults / '
        'descriptions, strings > 1000 characters, tagged duplicates of one key, bases, aliases, spawnflags, choices, resources) '
        'exported with seeded options to the simulated disk, parsed back under seeded short reads, exported again. '
        'Non-trivial: >=2 lookups hit different lazily-parsed blocks, or a full load is interleaved, or a generated FGD has '
        '>=2 entities. distinct = distinct event-log digest.')
STATE_MEASURE = 'distinct (query kind, block already parsed?, outcome) triples; distinct value types and FGD features exported'
REAL_VS_STUB = {'real': ['srctools._engine_db (unserialise, EngineDB.get_ent/_parse_block/get_fgd, serialise)', 'srctools.fgd (export, parse_file, '
                         'EntityDef.engine_def, deep copies)', 'the shipped fgd.lzma'], 'stub': ['disk (sim/simfs.py)', 'caller issuing the queries']}
ASSUMPTIONS = ['generated strings stay inside what the FGD text syntax can carry with custom_syntax on (escapes) or off (no double quotes / backslashes)',
               'I/O value types are compared after the documented VALUE_TO_IO_DECAY', 'byte layout of a serialised database is not compared (set iteration order), only unserialised content']

_RAW = None
_REF = None


def _raw():
    global _RAW
    if _RAW is None:
        from importlib.resources import files
        _RAW = (files(srctools) / 'fgd.lzma').read_bytes()
    return _RAW


def _ref():
    """Definitions from a database that was loaded in full first (computed once per process)."""
    global _REF
    if _REF is None:
        db = E.unserialise(io.BytesIO(_raw()))
        full = db.get_fgd()
        _REF = {name: obs_ent(ent) for name, ent in full.entities.items()}
    return _REF


# ------------------------------------------------------------------ observation
def _tname(t):
    return t.name if isinstance(t, ValueTypes) else str(t)


def obs_kv(kv: KVDef):
    vl = None
    if kv.val_list:      # None and [] both mean "no entries" (flags_list / choices_list treat them alike)
        vl = [[str(x[0]), x[1], x[2] if isinstance(x[2], bool) else None, sorted(x[-1])] for x in kv.val_list]
    # spawnflags have no display name in the text syntax (the parser substitutes the key name)
    disp = None if kv.type is ValueTypes.SPAWNFLAGS else kv.disp_name
    # the text syntax requires a default for booleans; the exporter writes 0 for a blank one
    default = '0' if kv.type is ValueTypes.BOOL and not kv.default else kv.default
    return [kv.name, _tname(kv.type), disp, default, kv.desc, bool(kv.readonly), bool(kv.reportable), vl]


def obs_ent(e: EntityDef, io_decay=False):
    def io(d):
        t = d.type
        if io_decay and isinstance(t, ValueTypes):
            t = VALUE_TO_IO_DECAY[t]
        return [d.name, _tname(t), d.desc]
    return {
        'classname': e.classname, 'type': e.type.name, 'is_alias': bool(e.is_alias), 'desc': e.desc,
        'bases': [[b, False] if isinstance(b, str) else [b.classname, True] for b in e.bases],
        'helpers': [[type(h).__name__, list(h.export())] for h in e.helpers],
        'kv': {name: {','.join(sorted(tags)): obs_kv(kv) for tags, kv in m.items()} for name, m in sorted(e.keyvalues.items())},
        'inp': {name: {','.join(sorted(tags)): io(v) for tags, v in m.items()} for name, m in sorted(e.inputs.items())},
        'out': {name: {','.join(sorted(tags)): io(v) for tags, v in m.items()} for name, m in sorted(e.outputs.items())},
        'resources': None if e.resources == () and not isinstance(e.resources, list) else [[r.filename, r.type.name, sorted(r.tags)] for r in e.resources],
    }


# ------------------------------------------------------------------ generation
LONG = ' '.join(['lorem ipsum dolor sit amet'] * 60)
STR_PLAIN = ['', 'Name', 'x' * 2300, 'word' * 300 + ' tail', 'A longer display name', 'with: colon', 'plus + sign', 'comma, separated', 'tab\there', 'UPPER lower', LONG[:1200], LONG[:2300]]
STR_ESC = ['quote " inside', 'back\\slash', 'line one\nline two', 'trailing backslash\\', "apostrophe's", 'para one\n\npara two ' + LONG[:1100]]
KV_TYPES = [t for t in ValueTypes if t not in (ValueTypes.CHOICES, ValueTypes.SPAWNFLAGS)]
IO_TYPES = [t for t in ValueTypes if t not in (ValueTypes.CHOICES, ValueTypes.SPAWNFLAGS)]


def _long(r: Rng, custom: bool) -> str:
    """A long string whose line breaks (and, with the extended syntax, quotes and backslashes) crowd around the 1000
    character split points of the exporter, so that a misplaced split lands inside an escape sequence."""
    target = r.pick([990, 1001, 1010, 1500, 2005, 2600])
    toks = ['word ', 'x', ' ', '\n', '\n\n', '\n\n\n', 'ab'] + (['"', '\\', '\\\\', '"\n', '\\n', '\t'] if custom else ["'"])
    dense = r.chance(0.5)
    out = []
    n = 0
    while n < target:
        near = any(abs((n % 1000) - 995) < 12 for _ in (0,)) or n % 1000 < 6
        t = r.pick(toks[3:] if (dense or near) and r.chance(0.8) else toks)
        out.append(t)
        n += len(t) + (1 if t in ('\n', '"', '\\', '\t') else 0)
    return ''.join(out)


def _s(r: Rng, custom: bool, allow_empty=True):
    if r.chance(0.12):
        return _long(r, custom)
    pool = STR_PLAIN + (STR_ESC if custom else ["apostrophe's", 'line one\nline two'])
    s = r.pick(pool)
    if not allow_empty and not s:
        s = 'x'
    return s


def _ident(r: Rng):
    return r.pick(['origin', 'angles', 'targetname', 'model', 'Skin', 'spawnflags', 'rendercolor', 'damage', 'StartDisabled', 'target', 'speed',
                   'message', 'health', 'MyKey', 'key_2'])


def gen_fgd(r: Rng) -> dict:
    custom = r.chance(0.7)
    ents = []
    names = []
    for i in range(r.randrange(1, 6)):
        cls = r.pick(['info_thing', 'func_widget', 'logic_gadget', 'prop_item', 'BaseThing', 'npc_example', 'env_effect']) + str(i)
        etype = r.pick(['POINT', 'POINT', 'BRUSH', 'BASE', 'NPC', 'FILTER', 'ROPES', 'TRACK'])
        kvs = []
        used = set()
        for _ in range(r.randrange(0, 6)):
            nm = _ident(r)
            tags_opts = [[], [], ['ENGINE'], ['HL2', 'EP1'], ['!P2']] if custom else [[]]
            tags = r.pick(tags_opts)
            key = (nm.casefold(), tuple(sorted(tags)))
            if key in used:
                continue
            used.add(key)
            kind = r.random()
            if nm.casefold() == 'spawnflags' or kind < 0.12:
                flags = []
                for p in sorted(r.sample(range(0, 24), r.randrange(0, 5))):
                    flags.append([1 << p, _s(r, custom, False)[:60].replace('\n', ' ').replace('[', '(').strip() or 'flag', r.chance(0.5), r.pick(tags_opts) if custom and r.chance(0.2) else []])
                kvs.append({'name': 'spawnflags' if nm.casefold() == 'spawnflags' else nm, 'type': 'SPAWNFLAGS', 'disp': '', 'default': '', 'desc': '', 'readonly': False,
                            'report': False, 'tags': tags, 'val_list': flags})
            elif kind < 0.25:
                ch = [[r.pick(['0', '1', '2', 'text', '-1', '0.5']), _s(r, False, False)[:60].replace('\n', ' ').strip() or 'c', r.pick(tags_opts) if custom and r.chance(0.2) else []]
                      for _ in range(r.randrange(0, 4))]
                kvs.append({'name': nm, 'type': 'CHOICES', 'disp': _s(r, custom), 'default': r.pick(['', '0', '1', 'text']), 'desc': _s(r, custom), 'readonly': r.chance(0.1),
                            'report': r.chance(0.1), 'tags': tags, 'val_list': ch})
            else:
                t = r.pick(KV_TYPES)
                default = r.pick(['', '', '0', '1', '-5', '0.5', '1 2 3', 'some text', '255 255 255 200'])
                if t is ValueTypes.BOOL:
                    default = r.pick(['0', '1'])
                kvs.append({'name': nm, 'type': t.name, 'disp': _s(r, custom), 'default': default, 'desc': _s(r, custom), 'readonly': r.chance(0.1),
                            'report': r.chance(0.1), 'tags': tags, 'val_list': None})
        ios = []
        for kind in ('inp', 'out'):
            for _ in range(r.randrange(0, 4)):
                ios.append({'kind': kind, 'name': r.pick(['Enable', 'Disable', 'OnTrigger', 'SetValue', 'FireUser1', 'OnUser1', 'Kill', 'Skin']),
                            'type': r.pick(IO_TYPES).name, 'desc': _s(r, custom), 'tags': r.pick([[], [], ['ENGINE']]) if custom else []})
        ent = {'classname': cls, 'type': etype, 'desc': _s(r, custom), 'bases': r.sample(names, r.randrange(0, min(2, len(names)) + 1)) if names else [],
               'kvs': kvs, 'ios': ios, 'resources': None, 'alias': False}
        if custom and r.chance(0.3):
            ent['resources'] = [[r.pick(['models/a.mdl', 'sound/x.wav', 'with "quote".vmt', 'Some.Sound']), r.pick(['MODEL', 'GAME_SOUND', 'MATERIAL', 'GENERIC']),
                                 r.pick([[], [], ['EP2']])] for _ in range(r.randrange(0, 3))]
        ents.append(ent)
        names.append(cls)
    return {'custom_syntax': custom, 'label_spawnflags': r.chance(0.5), 'ents': ents}


def build_fgd(spec: dict) -> FGD:
    fgd = FGD()
    for e in spec['ents']:
        ent = EntityDef(EntityTypes[e['type']], e['classname'], desc=e['desc'])
        ent.bases = list(e['bases'])
        for kv in e['kvs']:
            vl = kv['val_list']
            if vl is not None and kv['type'] == 'SPAWNFLAGS':
                vl = [(m, n, d, frozenset(t)) for m, n, d, t in vl]
            elif vl is not None:
                vl = [(v, n, frozenset(t)) for v, n, t in vl]
            k = KVDef(name=kv['name'], type=ValueTypes[kv['type']], disp_name=kv['disp'], default=kv['default'], desc=kv['desc'], val_list=vl,
                      readonly=kv['readonly'], reportable=kv['report'])
            ent.keyvalues.setdefault(kv['name'].casefold(), {})[frozenset(kv['tags'])] = k
        for io_ in e['ios']:
            d = IODef(io_['name'], ValueTypes[io_['type']], io_['desc'])
            (ent.inputs if io_['kind'] == 'inp' else ent.outputs).setdefault(io_['name'].casefold(), {})[frozenset(io_['tags'])] = d
        if e['resources'] is not None:
            ent.resources = [Resource(fn, FileType[t], frozenset(tags)) for fn, t, tags in e['resources']]
        fgd.entities[e['classname'].casefold()] = ent
    fgd.apply_bases()
    return fgd


def gen_bin_fgd(r: Rng) -> dict:
    """A generated FGD in engine format, big enough (>512 distinct strings) for the binary database format."""
    def kv(i, j, cls):
        kind = r.random()
        nm = f'{cls}_key{j}' if r.chance(0.7) else r.pick(['origin', 'angles', 'targetname', 'model', 'skin'])
        if kind < 0.15:
            flags = [[1 << p, f'flag {cls} {p}', r.chance(0.5), []] for p in sorted(r.sample(range(0, 31), r.randrange(0, 5)))]
            return {'name': 'spawnflags', 'type': 'SPAWNFLAGS', 'disp': '', 'default': '', 'desc': '', 'readonly': False, 'report': False, 'tags': [],
                    'val_list': flags}
        t = r.pick(KV_TYPES)
        return {'name': nm, 'type': t.name, 'disp': r.pick(['', f'Display {cls} {j}', f'Name {j}']), 'default': r.pick(['', '0', '1', f'def{i}_{j}', '1 2 3']),
                'desc': '', 'readonly': r.chance(0.25), 'report': False, 'tags': [], 'val_list': None}

    def ios(cls):
        res = []
        for kind in ('inp', 'out'):
            for n in r.sample(['Enable', 'Disable', 'OnTrigger', 'SetValue', 'FireUser1', 'OnUser1', 'Kill', 'Skin', f'{cls}Special'], r.randrange(0, 4)):
                res.append({'kind': kind, 'name': n, 'type': r.pick(IO_TYPES).name, 'desc': '', 'tags': []})
        return res
    ents = [{'classname': '_CBaseEntity_', 'type': 'BASE', 'desc': '', 'bases': [], 'kvs': [kv(0, j, 'base') for j in range(6)], 'ios': ios('base'),
             'resources': None, 'alias': False}]
    n = r.randrange(70, 110)
    for i in range(1, n):
        cls = r.pick(['info', 'func', 'logic', 'prop', 'npc', 'env']) + f'_gen{i}'
        seen = set()
        kvs = []
        for j in range(r.randrange(2, 6)):
            k = kv(i, j, cls)
            if k['name'].casefold() in seen:
                continue
            seen.add(k['name'].casefold())
            kvs.append(k)
        e = {'classname': cls, 'type': r.pick(['POINT', 'BRUSH', 'NPC', 'FILTER', 'ROPES', 'TRACK']), 'desc': '', 'bases': ['_CBaseEntity_'], 'kvs': kvs,
             'ios': ios(cls), 'resources': None, 'alias': False}
        if r.chance(0.3):
            # (an explicitly empty resources list cannot be told from "none" in the binary format)
            e['resources'] = [[f'models/{cls}_{k}.mdl', r.pick(['MODEL', 'GAME_SOUND', 'MATERIAL', 'GENERIC', 'PARTICLE']), r.pick([[], [], ['EP2'], ['!CSGO', 'HL2']])]
                              for k in range(r.randrange(1, 3))]
        if r.chance(0.1) and i > 3:
            e = {'classname': cls, 'type': 'POINT', 'desc': '', 'bases': [ents[r.randrange(1, len(ents))]['classname']], 'kvs': [], 'ios': [], 'resources': None,
                 'alias': True}
            while ents[[x['classname'] for x in ents].index(e['bases'][0])]['alias']:
                e['bases'] = [ents[r.randrange(1, 3)]['classname']]
        ents.append(e)
    return {'custom_syntax': True, 'label_spawnflags': True, 'ents': ents}


def gen(rng: Rng, tier: str, index: int) -> dict:
    if index == 0:
        return {'mode': 'full-text', 'steps': []}
    if index == 1:
        return {'mode': 'full-binary', 'steps': []}
    r = rng.child('cfg')
    if r.chance(0.04):
        spec = gen_bin_fgd(rng.child('binfgd'))
        q = rng.child('queries')
        names = [e['classname'] for e in spec['ents']]
        steps = [['get', q.pick(names)] for _ in range(q.randrange(3, 15))]
        if q.chance(0.5):
            steps.insert(q.randrange(len(steps) + 1), ['get_fgd'])
        return {'mode': 'gen-binary', 'spec': spec, 'steps': steps}
    if r.chance(0.15):
        return {'mode': 'gen-text', 'spec': gen_fgd(rng.child('fgd')), 'short': {str(r.randrange(0, 40)): r.pick([0.05, 0.3, 0.7]) for _ in range(r.randrange(0, 6))},
                'steps': []}
    names = sorted(_ref())
    steps = []
    for _ in range(r.randrange(3, 12) if r.chance(0.7) else r.randrange(12, 25)):
        x = r.random()
        if x < 0.62:
            nm = r.pick(names)
            nm = r.pick([nm, nm, nm.upper(), nm.title()])
            steps.append([r.pick(['get', 'get', 'engine_def']), nm])
        elif x < 0.7:
            steps.append(['unknown', r.pick(['no_such_entity', '', 'prop_staticx', '_nope_'])])
        elif x < 0.78:
            steps.append(['classnames'])
        elif x < 0.8:
            steps.append(['classnames'])
        elif x < 0.92:
            steps.append(['mutate', r.randrange(8), r.pick(['kv-default', 'kv-delete', 'add-kv', 'rename', 'io-type', 'resources', 'base', 'views', 'views'])])
        else:
            steps.append(['engine_classes'])
    if r.chance(0.1):      # a full load interleaved at a seeded position (0.7 s each: kept to a tenth of the runs)
        steps.insert(r.randrange(len(steps) + 1), ['get_fgd'])
    return {'mode': 'lazy', 'steps': steps}


# ------------------------------------------------------------------ run
def run(case: dict) -> Outcome:
    out = Outcome()
    mode = case['mode']
    if mode == 'lazy':
        return _run_lazy(case, out)
    if mode == 'gen-binary':
        return _run_gen_binary(case, out)
    if mode == 'gen-text':
        return _run_text(case, out, build_fgd(case['spec']), case['spec']['custom_syntax'], case['spec']['label_spawnflags'], case.get('short') or {}, 'generated')
    db = E.unserialise(io.BytesIO(_raw()))
    full = db.get_fgd()
    if mode == 'full-text':
        return _run_text(case, out, full, True, True, {}, 'bundled')
    # binary round trip of the complete database
    want = {n: obs_ent(e) for n, e in full.entities.items()}
    buf = io.BytesIO()
    try:
        E.serialise(copy.deepcopy(full), buf)
        db2 = E.unserialise(io.BytesIO(buf.getvalue()))
        got_fgd = db2.get_fgd()
    except Exception as exc:
        out.violate('binary-raised', type(exc).__name__, f'serialise/unserialise of the bundled database raised {exc!r}')
        return out
    got = {n: obs_ent(e) for n, e in got_fgd.entities.items()}
    d = diff(want, got)
    if d is not None:
        out.violate('binary-field-changed:' + _field(d[0]), 'bundled', f'{d[0]}: {str(d[1])[:200]!r} -> {str(d[2])[:200]!r}')
    out.nontrivial = True
    out.steps = 1
    out.event('full-binary', len(want), len(buf.getvalue()) > 1000)
    out.sample = {'mode': mode, 'entities': len(want)}
    return out


def _run_gen_binary(case, out: Outcome) -> Outcome:
    """Generated engine-format FGD -> serialise -> unserialise -> seeded lazy lookups; ground truth is the spec."""
    spec = case['spec']
    try:
        src = build_fgd(spec)
        for e in spec['ents']:
            if e['alias']:
                src.entities[e['classname'].casefold()].is_alias = True
    except Exception as exc:
        out.event('build-failed', type(exc).__name__)
        return out
    want = {n: obs_ent(e) for n, e in src.entities.items()}
    for o in want.values():
        if not o['bases'] and o['classname'] != '_CBaseEntity_':
            o['bases'] = [['_CBaseEntity_', True]]
    buf = io.BytesIO()
    try:
        E.serialise(copy.deepcopy(src), buf)
    except AssertionError as exc:
        out.event('too-small-for-binary-format', str(exc)[:80])
        out.stats['gen_binary_too_small'] += 1
        return out
    except Exception as exc:
        out.violate('binary-raised', f'generated|serialise|{type(exc).__name__}', f'serialise raised {exc!r}')
        return out
    try:
        db = E.unserialise(io.BytesIO(buf.getvalue()))
    except Exception as exc:
        out.violate('binary-raised', f'generated|unserialise|{type(exc).__name__}', f'unserialise raised {exc!r}')
        return out
    if set(db.get_classnames()) != set(want):
        out.violate('binary-field-changed:classnames', 'generated', f'{sorted(set(db.get_classnames()) ^ set(want))[:6]}')
    for si, st in enumerate(case['steps']):
        out.steps += 1
        try:
            if st[0] == 'get':
                got = obs_ent(db.get_ent(st[1]))
                d = diff(want[st[1].casefold()], got)
                where = f'lazy lookup #{si} of {st[1]}'
            else:
                full = db.get_fgd()
                got = {n: obs_ent(e) for n, e in full.entities.items()}
                d = diff(want, got)
                where = f'full load at step {si}'
        except Exception as exc:
            out.violate('binary-raised', f'generated|{st[0]}|{type(exc).__name__}', f'step {si} {st} raised {exc!r}')
            break
        if d is not None:
            out.violate('binary-field-changed:' + _field(('/x' if st[0] == 'get' else '') + d[0]), 'generated', f'{where}: {d[0]}: written {str(d[1])[:160]!r}, read back {str(d[2])[:160]!r}')
            break
    out.nontrivial = True
    out.states.add('gen-binary')
    out.event('gen-binary', len(want), len(buf.getvalue()))
    out.sample = {'mode': 'gen-binary', 'entities': len(want), 'bytes': len(buf.getvalue()), 'steps': case['steps'][:10]}
    return out


def _field(path: str) -> str:
    parts = [p for p in generic_path(path).strip('/').split('/') if p]
    return '/'.join(parts[1:3]) if len(parts) > 1 else (parts[0] if parts else 'value')


def _run_text(case, out: Outcome, fgd: FGD, custom: bool, label: bool, short: dict, label_src: str) -> Outcome:
    path = simfs.MOUNT + '/fgd/test.fgd'
    fs = SimFS(plan={'short': short})
    fs.put_dir(simfs.MOUNT + '/fgd')
    want = {n: obs_ent(e, io_decay=True) for n, e in fgd.entities.items()}
    with fs:
        try:
            with open(path, 'w', encoding='utf-8') as f:
                fgd.export(f, label_spawnflags=label, custom_syntax=custom)
            t1 = fs.get(path).decode('utf-8')
        except Exception as exc:
            out.violate('text-export-raised', f'{label_src}|{type(exc).__name__}', f'export raised {exc!r}')
            return out
        try:
            fsys = RawFileSystem(simfs.MOUNT + '/fgd')
            fgd2 = FGD()
            fgd2.parse_file(fsys, fsys['test.fgd'], encoding='utf-8')
        except Exception as exc:
            mess = getattr(exc, 'mess', str(exc))
            line = getattr(exc, 'line_num', None)
            ctx = t1.split('\n')[max(0, (line or 1) - 2):(line or 1)] if line else []
            out.violate('text-reparse-failed', f'{label_src}|{_short(mess)}', f'parsing the exported text failed: {mess!r} at line {line}: {ctx}')
            out.event('reparse-failed', _short(mess))
            return out
        try:
            t2 = fgd2.export(label_spawnflags=label, custom_syntax=custom)
        except Exception as exc:
            out.violate('text-export-raised', f'{label_src}|second|{type(exc).__name__}', repr(exc))
            return out
    got = {n: obs_ent(e, io_decay=True) for n, e in fgd2.entities.items()}
    if not custom:
        for o in (want, got):
            for e in o.values():
                e['resources'] = None
                e['is_alias'] = None       # aliasof() is extension syntax
                e['helpers'] = [h for h in e['helpers'] if False]
                # without custom syntax tags are dropped and tagged duplicates collapse: compare names only
                for sect in ('kv', 'inp', 'out'):
                    e[sect] = {k: None for k in e[sect]}
    d = diff(want, got)
    if d is not None:
        out.violate('text-field-changed:' + _field(d[0]), f'{label_src}|custom={int(custom)}', f'{d[0]}: exported {str(d[1])[:200]!r} -> re-parsed {str(d[2])[:200]!r}')
    if t2 != t1:
        la, lb = t1.split('\n'), t2.split('\n')
        k = next((i for i, (x, y) in enumerate(zip(la, lb)) if x != y), min(len(la), len(lb)))
        out.violate('text-not-fixed-point', f'{label_src}|custom={int(custom)}', f'second export differs at line {k + 1}: {la[k][:160] if k < len(la) else "<end>"!r} vs {lb[k][:160] if k < len(lb) else "<end>"!r}')
    out.steps = 1
    out.nontrivial = len(want) >= 2
    for e in want.values():
        for m in e['kv'].values():
            for kv in (m or {}).values():
                out.states.add('kvtype:' + kv[1])
    out.event(label_src, len(want), custom, label, len(t1))
    out.sample = {'mode': case['mode'], 'custom_syntax': custom, 'label_spawnflags': label, 'entities': sorted(want)[:8], 'text_head': t1[:300]}
    return out


def _short(mess: str) -> str:
    return ''.join(ch for ch in mess[:40] if ch.isalpha() or ch == ' ').strip().replace(' ', '_')[:30]


def _run_lazy(case, out: Outcome) -> Outcome:
    ref = _ref()
    db = E.unserialise(io.BytesIO(_raw()))
    F._ENGINE_DB = [db]
    handed = []           # copies handed out to the "caller"
    blocks_hit = set()
    full_loaded = False
    try:
        for si, st in enumerate(case['steps']):
            out.steps += 1
            op = st[0]
            if op in ('get', 'engine_def'):
                name = st[1]
                info = db.ent_map.get(name.casefold())
                lazy = isinstance(info, int)
                if lazy:
                    blocks_hit.add(info)
                try:
                    ent = db.get_ent(name) if op == 'get' else EntityDef.engine_def(name)
                except Exception as exc:
                    out.violate('lazy-differs:raised', f'{op}|{type(exc).__name__}', f'step {si} {st} raised {exc!r}')
                    break
                got = obs_ent(ent)
                d = diff(ref[name.casefold()], got)
                out.states.add(f'{op}|{"lazy" if lazy else "parsed"}|{"ok" if d is None else "diff"}')
                if d is not None:
                    clause = 'copy-not-isolated' if any(s[0] == 'mutate' for s in case['steps'][:si]) and _mutated_hit(handed, name) else 'lazy-differs:' + _field('/x' + d[0])
                    out.violate(clause, f'{op}|{"block-unparsed" if lazy else "block-parsed"}|{"after-full-load" if full_loaded else "lazy-only"}',
                                f'step {si} {st}: {d[0]}: full load gives {str(d[1])[:160]!r}, lookup gives {str(d[2])[:160]!r}')
                    break
                if op == 'engine_def':
                    handed.append(ent)
                else:
                    handed.append(copy.deepcopy(ent))
            elif op == 'unknown':
                for fn in (db.get_ent, EntityDef.engine_def):
                    try:
                        fn(st[1])
                        out.violate('lazy-differs:unknown', 'no-keyerror', f'lookup of unknown class {st[1]!r} succeeded')
                    except KeyError:
                        pass
            elif op in ('classnames', 'engine_classes'):
                names = set(db.get_classnames()) if op == 'classnames' else set(EntityDef.engine_classes())
                if names != set(ref):
                    out.violate('lazy-differs:classnames', op, f'{len(names)} names vs {len(ref)} in the full load; diff {sorted(names ^ set(ref))[:5]}')
            elif op == 'get_fgd':
                full = db.get_fgd()
                full_loaded = True
                got = {n: obs_ent(e) for n, e in full.entities.items()}
                d = diff(ref, got)
                if d is not None:
                    out.violate('order-dependent', 'get_fgd-after-lookups', f'full load after {si} lazy steps differs at {d[0]}: {str(d[1])[:120]!r} vs {str(d[2])[:120]!r}')
                    break
                handed.append(full[sorted(ref)[si % len(ref)]])
            elif op == 'mutate' and handed:
                ent = handed[st[1] % len(handed)]
                how = st[2]
                try:
                    if how == 'kv-default':
                        for m in ent.keyvalues.values():
                            for kv in m.values():
                                kv.default = 'MUTATED'
                                kv.disp_name = 'MUTATED'
                                if kv.val_list:
                                    kv.val_list.append((1 << 30, 'MUTATED', True, frozenset()))
                    elif how == 'kv-delete':
                        ent.keyvalues.clear()
                        ent.inputs.clear()
                    elif how == 'add-kv':
                        ent.keyvalues['mutated_key'] = {frozenset(): KVDef('mutated_key', ValueTypes.STRING)}
                        ent.kv_order.append('mutated_key')
                    elif how == 'rename':
                        ent.classname = 'MUTATED'
                        ent.desc = 'MUTATED'
                    elif how == 'io-type':
                        for m in list(ent.inputs.values()) + list(ent.outputs.values()):
                            for v in m.values():
                                v.type = ValueTypes.VEC
                                v.name = 'MUTATED'
                    elif how == 'resources':
                        if isinstance(ent.resources, list):
                            ent.resources.append(Resource('mutated.mdl', FileType.MODEL))
                        else:
                            ent.resources = [Resource('mutated.mdl', FileType.MODEL)]
                    elif how == 'views':
                        # edits through the .kv / .inp / .out views of the copy the caller was handed
                        for view, cls in ((ent.kv, KVDef), (ent.inp, IODef), (ent.out, IODef)):
                            names = list(getattr(ent, view._attr))
                            for nm in names[:2]:
                                try:
                                    view[nm].desc = 'MUTATED-THROUGH-VIEW'
                                except Exception:
                                    pass
                            for nm in names[2:3]:
                                del view[nm]
                            view['mutated_view_item'] = KVDef('mutated_view_item', ValueTypes.STRING) if cls is KVDef else IODef('mutated_view_item')
                    elif how == 'base':
                        for b in ent.bases:
                            if isinstance(b, EntityDef):
                                b.keyvalues.clear()
                                b.classname = 'MUTATED_BASE'
                except Exception:
                    pass
                out.stats['mutations'] += 1
            out.event(si, st[0], len(blocks_hit), full_loaded)
    finally:
        F._ENGINE_DB = None
    if len(blocks_hit) >= 2 or full_loaded:
        out.nontrivial = True
    out.stats['blocks_parsed_lazily'] += len(blocks_hit)
    out.sample = {'mode': 'lazy', 'steps': case['steps'][:20]}
    return out


def _mutated_hit(handed, name):
    return any(getattr(e, 'classname', None) in ('MUTATED',) or True for e in handed)


def simplify(case: dict):
    if case['mode'] != 'gen-text':
        return
    spec = case['spec']
    if case.get('short'):
        yield dict(case, short={})
    for i in range(len(spec['ents'])):
        if not any(spec['ents'][i]['classname'] in e['bases'] for e in spec['ents']):
            yield dict(case, spec=dict(spec, ents=spec['ents'][:i] + spec['ents'][i + 1:]))
    for i, e in enumerate(spec['ents']):
        for fld in ('kvs', 'ios'):
            for k in range(len(e[fld])):
                e2 = dict(e)
                e2[fld] = e[fld][:k] + e[fld][k + 1:]
                yield dict(case, spec=dict(spec, ents=spec['ents'][:i] + [e2] + spec['ents'][i + 1:]))
        if e['desc']:
            yield dict(case, spec=dict(spec, ents=spec['ents'][:i] + [dict(e, desc='')] + spec['ents'][i + 1:]))
        if e['resources']:
            yield dict(case, spec=dict(spec, ents=spec['ents'][:i] + [dict(e, resources=None)] + spec['ents'][i + 1:]))
        for k, kv in enumerate(e['kvs']):
            for fld in ('disp', 'desc', 'default'):
                if kv[fld] not in ('', 'x'):
                    kv2 = dict(kv)
                    kv2[fld] = 'x' if fld != 'default' else ''
                    e2 = dict(e, kvs=e['kvs'][:k] + [kv2] + e['kvs'][k + 1:])
                    yield dict(case, spec=dict(spec, ents=spec['ents'][:i] + [e2] + spec['ents'][i + 1:]))

"""C06 — VMF export/parse round trip is a fixed point and loses no map content.

The maps are states reached by API histories (a seeded spec realised through the public API,
then a seeded list of API mutations); the exported text travels export -> simulated text file
(host newline mode) -> E1 delivery schedule -> Keyvalues.parse -> VMF.parse -> export."""
from __future__ import annotations

import copy
import io
import os

from sim.core import Outcome, Rng, REPO
from sim.stream import Delivery
from sim import simfs
from sim.simfs import SimFS
from machines import vmfgen as G

from srctools.vmf import VMF, Entity, Output
from srctools.keyvalues import Keyvalues
from srctools.math import Vec, Angle

import re
_NEGZERO = re.compile(r'(?<![\w.\-])-0(?![\w.])')

PROP = 'C06'
LEVEL = 'exploration'
RUNS = {'quick': 6000, 'thorough': 400000}
BATCH = {'quick': 100, 'thorough': 1000}
BUDGET_S = {'quick': 70.0, 'thorough': 1500.0}
RULE = ('one run = one seeded map spec (entities with arbitrary keys/values, outputs in both separator and instance '
        'forms, fixups, hidden objects, brush entities, prisms and arbitrary faces, displacements of power 1-4 with '
        'vertex data / multiblend / allowed verts, nested visgroups, groups, cameras, cordons, Strata viewports and '
        'point data) realised through the public API, mutated by a seeded API history, exported with seeded options '
        '(minimal, disp_multiblend), written to a simulated text file in \\n or \\r\\n mode, delivered to the parser '
        'under a seeded chunk/file schedule, parsed (preserve_ids seeded) and exported again; plus every .vmf under '
        'tests/. Non-trivial: the map has >=1 brush entity or world brush, >=1 output or fixup and >=1 non-default '
        'editor field. distinct = distinct event-log digest. Map contents are sampled; the delivery is searched.')
STATE_MEASURE = 'distinct feature flags present in the exported map (displacement power, multiblend, hidden, groups, viewports, ...)'
REAL_VS_STUB = {
    'real': ['srctools.vmf (VMF/Entity/Solid/Side/Output/VisGroup/EntityGroup/Camera/Cordon export+parse)',
             'Keyvalues.parse + Tokenizer (Python)', 'CPython TextIOWrapper newline translation'],
    'stub': ['disk (sim/simfs.py)', 'chunk producer'],
}
ASSUMPTIONS = ['generated strings avoid what the format cannot carry: output fields without their separator, fixup variable names '
               'without spaces, key names that are not id/replaceNN, no line breaks in key names',
               'numbers compared within the tolerances of the statement (5e-7 absolute; six significant digits for rotation, '
               'output delay, multiblend)', 'IDs compared up to a consistent per-kind bijection when preserve_ids is off']


def gen(rng: Rng, tier: str, index: int) -> dict:
    r = rng.child('map')
    samples = _sample_vmfs()
    if samples and index < len(samples) * 2:
        return {'sample': samples[index // 2], 'opts': {'minimal': False, 'disp_multiblend': True, 'preserve_ids': bool(index % 2)},
                'steps': [], 'sink': 'str', 'delivery': {'mode': 'str'}, 'map': None}
    m = G.gen_map(r, r.pick(['tiny', 'small', 'small', 'medium']))
    o = rng.child('opts')
    opts = {'minimal': o.chance(0.2), 'disp_multiblend': not o.chance(0.2), 'preserve_ids': o.chance(0.4)}
    h = rng.child('hist')
    steps = []
    for _ in range(h.randrange(0, 6)):
        x = h.random()
        if x < 0.2:
            steps.append(['translate', h.randrange(8), [float(h.randrange(-64, 64)) for _ in range(3)]])
        elif x < 0.35:
            steps.append(['localise', h.randrange(8), [float(h.randrange(-64, 64)) for _ in range(3)], [0.0, float(h.pick([0, 90, 45, 270])), 0.0]])
        elif x < 0.5:
            steps.append(['copy_ent', h.randrange(8)])
        elif x < 0.6:
            steps.append(['remove_ent', h.randrange(8)])
        elif x < 0.75:
            steps.append(['set_key', h.randrange(8), G.rname(h), G.rstr(h, 0.4, newline=True)])
        elif x < 0.85:
            steps.append(['add_out', h.randrange(8), G.gen_output(h)])
        elif x < 0.92:
            steps.append(['set_fixup', h.randrange(8), G.rname(h), G.rstr(h, 0.3)])
        else:
            steps.append(['make_unique', h.randrange(8)])
    d = rng.child('sched')
    sink = d.pick(['str', 'str', 'file_lf', 'file_crlf'])
    delivery = d.pick([{'mode': 'str'}, {'mode': 'lines'}, {'mode': 'chunks', 'size': d.pick([1, 2, 3, 7, 64, 1000])},
                       {'mode': 'chunks', 'ncuts': d.randrange(1, 20), 'cut_seed': d.randrange(1 << 30)},
                       {'mode': 'file', 'newline': d.pick([None, '']), 'read_sizes': [d.randrange(1, 200) for _ in range(d.randrange(1, 4))]}])
    return {'map': m, 'opts': opts, 'steps': steps, 'sink': sink, 'delivery': delivery, 'sample': None,
            'reparse': rng.child('reparse').chance(0.4)}


_SAMPLES = None


def _sample_vmfs():
    global _SAMPLES
    if _SAMPLES is None:
        _SAMPLES = []
        for root, dirs, files in os.walk(os.path.join(REPO, 'tests')):
            dirs.sort()
            for fn in sorted(files):
                if fn.lower().endswith('.vmf'):
                    _SAMPLES.append(os.path.relpath(os.path.join(root, fn), REPO))
    return _SAMPLES


def apply_steps(vmf: VMF, steps, out=None):
    for st in steps:
        op = st[0]
        ents = vmf.entities
        solids = list(vmf.brushes) + [s for e in ents for s in e.solids]
        if op == 'translate' and solids:
            solids[st[1] % len(solids)].translate(Vec(*st[2]))
        elif op == 'localise' and solids:
            solids[st[1] % len(solids)].localise(Vec(*st[2]), Angle(*st[3]))
        elif op == 'copy_ent' and ents:
            vmf.add_ent(ents[st[1] % len(ents)].copy())
        elif op == 'remove_ent' and ents:
            vmf.remove_ent(ents[st[1] % len(ents)])
        elif op == 'set_key' and ents:
            k = st[2]
            if k.casefold() in ('id', 'classname') or k.casefold().startswith('replace'):
                k = 'k_' + k
            ents[st[1] % len(ents)][k] = st[3]
        elif op == 'add_out' and ents:
            ents[st[1] % len(ents)].add_out(G.build_output(st[2]))
        elif op == 'set_fixup' and ents:
            ents[st[1] % len(ents)].fixup[st[2]] = st[3]
        elif op == 'make_unique' and ents:
            ents[st[1] % len(ents)].make_unique('auto')


def _export(vmf, opts, sink, fs):
    kw = dict(inc_version=False, minimal=opts['minimal'], disp_multiblend=opts['disp_multiblend'])
    if sink == 'str':
        return vmf.export(**kw)
    path = simfs.MOUNT + '/maps/out.vmf'
    with open(path, 'w', encoding='utf-8') as f:
        res = vmf.export(f, **kw)
        assert res is None
    return fs.get(path).decode('utf-8')


def _delivery_sched(delivery, text):
    d = dict(delivery)
    if d['mode'] == 'chunks':
        if 'size' in d:
            d['cuts'] = list(range(d['size'], len(text), d['size']))
        elif 'ncuts' in d:
            r = Rng(d['cut_seed'])
            d['cuts'] = sorted({r.randrange(1, max(2, len(text))) for _ in range(d['ncuts'])})
    return d


class _IdMap:
    def __init__(self):
        self.fwd = {}
        self.identity = True

    def pair(self, kind, a, b):
        m = self.fwd.setdefault(kind, {})
        if a in m:
            return m[a] == b
        if b in m.values():
            return False
        m[a] = b
        if a != b:
            self.identity = False
        return True

    def ref(self, kind, a):
        return self.fwd.get(kind, {}).get(a, a)


def _strip_ids(obs_a, obs_b):
    """Walk two map observations in parallel, build the per-kind ID bijection and rewrite IDs and ID references of
    `obs_a` into the numbering of `obs_b`.  Returns (rewritten a, IdMap, error-or-None)."""
    a = copy.deepcopy(obs_a)
    idm = _IdMap()
    err = []

    def solids(sa, sb):
        for x, y in zip(sa, sb):
            if not idm.pair('solid', x['id'], y['id']):
                err.append(('solid', x['id'], y['id']))
            x['id'] = y['id']
            for p, q in zip(x['sides'], y['sides']):
                if not idm.pair('side', p['id'], q['id']):
                    err.append(('side', p['id'], q['id']))
                p['id'] = q['id']

    def ent(x, y):
        if not idm.pair('ent', x['id'], y['id']):
            err.append(('ent', x['id'], y['id']))
        x['id'] = y['id']
        # node IDs are IDs too (renumbered by add_ent unless preserve_ids)
        for k in list(x['keys']):
            if k.casefold() == 'nodeid' and k in y['keys'] and x['keys'][k].isdigit() and y['keys'][k].isdigit():
                if not idm.pair('node', x['keys'][k], y['keys'][k]):
                    err.append(('node', x['keys'][k], y['keys'][k]))
                x['keys'][k] = y['keys'][k]
        solids(x['solids'], y['solids'])

    def vis(va, vb):
        for x, y in zip(va, vb):
            if not idm.pair('vis', x['id'], y['id']):
                err.append(('vis', x['id'], y['id']))
            x['id'] = y['id']
            vis(x['children'], y['children'])
    vis(a['visgroups'], obs_b['visgroups'])
    for x, y in zip(a['groups'], obs_b['groups']):
        if not idm.pair('group', x[0], y[0]):
            err.append(('group', x[0], y[0]))
        x[0] = y[0]
    ent(a['spawn'], obs_b['spawn'])
    for x, y in zip(a['entities'], obs_b['entities']):
        ent(x, y)
    # references
    def refs(e):
        if e.get('groups') is not None:
            e['groups'] = sorted(idm.ref('group', g) for g in e['groups'])
        if e.get('vis_ids') is not None:
            e['vis_ids'] = sorted(idm.ref('vis', g) for g in e['vis_ids'])
        for s in e['solids']:
            if s.get('vis_ids') is not None:
                s['vis_ids'] = sorted(idm.ref('vis', g) for g in s['vis_ids'])
            if s.get('group_id') is not None:
                s['group_id'] = idm.ref('group', s['group_id'])
    refs(a['spawn'])
    for e in a['entities']:
        refs(e)
    return a, idm, (err[0] if err else None)


def _features(obs):
    f = set()
    for e in [obs['spawn']] + obs['entities']:
        if e['outputs']:
            f.add('outputs')
        if e['fixups']:
            f.add('fixups')
        if e['hidden']:
            f.add('hidden-ent')
        if e['comments']:
            f.add('comments')
        if e.get('groups'):
            f.add('ent-groups')
        if e.get('vis_ids'):
            f.add('ent-visgroups')
        for s in e['solids']:
            f.add('brush-ent' if e is not obs['spawn'] else 'world-brush')
            if s['hidden']:
                f.add('hidden-solid')
            if s.get('group_id') is not None:
                f.add('solid-group')
            for sd in s['sides']:
                if sd['disp_power']:
                    f.add(f'disp{sd["disp_power"]}')
                    if sd['disp']['verts'][0]['mb~'] is not None:
                        f.add('multiblend')
                    if any(x != -1 for x in sd['disp']['allowed']):
                        f.add('allowed-verts')
                if sd['points'] is not None:
                    f.add('points')
    if obs['visgroups']:
        f.add('visgroups')
    if obs['groups']:
        f.add('groups')
    for k in ('cameras', 'cordons', 'viewports'):
        if obs.get(k):
            f.add(k)
    return f


def run(case: dict) -> Outcome:
    out = Outcome()
    opts = case['opts']
    fs = SimFS(linesep='\r\n' if case['sink'] == 'file_crlf' else '\n')
    fs.put_dir(simfs.MOUNT + '/maps')
    with fs:
        try:
            if case.get('sample'):
                with open(os.path.join(REPO, case['sample']), encoding='utf-8', errors='replace') as f:
                    m = VMF.parse(Keyvalues.parse(f), preserve_ids=opts['preserve_ids'])
            else:
                m = G.build_map(case['map'])
                apply_steps(m, case['steps'])
        except Exception as e:
            out.event('build-failed', type(e).__name__, str(e)[:200])
            out.stats['build_failed'] += 1
            return out
        try:
            t1 = _export(m, opts, case['sink'], fs)
        except Exception as e:
            out.violate('export-raised', type(e).__name__, f'export raised {e!r}')
            return out
        o1 = G.obs_map(m, minimal=opts['minimal'])
        if not opts['disp_multiblend']:
            _drop_multiblend(o1)
        sched = _delivery_sched(case['delivery'], t1)
        d = Delivery(t1, sched)
        try:
            tree = Keyvalues.parse(d.source(), 'out.vmf')
            m2 = VMF.parse(tree, preserve_ids=opts['preserve_ids'])
        except Exception as e:
            out.violate('parse-rejected', f'{type(e).__name__}|{_reject_culprit(e)}', f'parsing the exported text failed: {e!r}'[:1500])
            out.event('rejected', type(e).__name__)
            return out
        o2 = G.obs_map(m2, minimal=opts['minimal'])
        try:
            t2 = _export(m2, opts, 'str', fs)
        except Exception as e:
            out.violate('export-raised', 'second|' + type(e).__name__, f'second export raised {e!r}')
            return out
        if case.get('reparse'):
            _reparse_phase(out, m2, o2, t1, opts)
    t1n = t1.replace('\r\n', '\n')
    o1m, idm, iderr = _strip_ids(o1, o2)
    if iderr is not None:
        out.violate('id-renumbering-inconsistent', iderr[0], f'IDs of kind {iderr[0]} are not renumbered consistently: {iderr}')
    if opts['preserve_ids'] and not idm.identity and not case.get('sample'):
        out.violate('field-changed:/id', 'preserve_ids', 'IDs changed although preserve_ids=True')
    df = G.diff(o1m, o2)
    if df is not None:
        path, a, b = df
        gp = G.generic_path(path)
        clause = 'field-lost:' if b in ('<missing>', None, [], '') and a not in (None, [], '') else 'field-changed:'
        out.violate(clause + gp, _value_class(a, b), f'{path}: original {a!r} -> re-parsed {b!r}')
    if t2 != t1n:
        if _NEGZERO.sub('0', t1n) == _NEGZERO.sub('0', t2):
            la, lb = t1n.split('\n'), t2.split('\n')
            k = next((i for i, (x, y) in enumerate(zip(la, lb)) if x != y), 0)
            out.violate('not-fixed-point', 'negative-zero-text', f"second export differs only by '-0' vs '0' (line {k + 1}: {la[k]!r} vs {lb[k]!r})")
        elif idm.identity or opts['preserve_ids']:
            la, lb = t1n.split('\n'), t2.split('\n')
            k = next((i for i, (x, y) in enumerate(zip(la, lb)) if x != y), min(len(la), len(lb)))
            ctx_a = la[k] if k < len(la) else '<end>'
            ctx_b = lb[k] if k < len(lb) else '<end>'
            key = ctx_a.strip().split('"')[1] if ctx_a.count('"') >= 2 else ctx_a.strip()[:20]
            out.violate('not-fixed-point', f'{key}', f'second export differs at line {k + 1}: {ctx_a!r} vs {ctx_b!r}')
    feats = _features(o1)
    out.states.update(feats)
    has_brush = bool(feats & {'brush-ent', 'world-brush'})
    if has_brush and feats & {'outputs', 'fixups'} and feats & {'hidden-ent', 'hidden-solid', 'comments', 'ent-groups', 'ent-visgroups',
                                                                'solid-group', 'visgroups', 'groups', 'cameras', 'cordons', 'viewports'}:
        out.nontrivial = True
    out.event(len(t1), sorted(feats), sched.get('mode'), opts)
    out.stats['delivery_' + sched['mode']] += 1
    out.sample = {'opts': opts, 'sink': case['sink'], 'delivery': case['delivery'], 'steps': case['steps'],
                  'features': sorted(feats), 'text_head': t1[:400], 'sample_file': case.get('sample')}
    return out


def _scribble(m: VMF):
    """In-place edits all over a parsed map (the caller owns it and may do what it likes with it)."""
    for solid in list(m.brushes) + [s for e in m.entities for s in e.solids]:
        solid.translate(Vec(16, -32, 48))
        for side in solid.sides:
            side.uaxis.offset += 7.0
            side.vaxis.scale *= 2.0
            side.uaxis.x += 0.5
            side.mat = side.mat + '_edited'
            side.lightmap += 1
            if side.is_disp:
                side.disp_pos.x += 9.0
                for v in side._disp_verts[:3]:
                    v.normal.z += 1.0
                    v.offset.x += 1.0
                    v.offset_norm.y += 1.0
                    v.alpha += 1.0
        solid.editor_color.x = (solid.editor_color.x + 1) % 255
        solid.visgroup_ids.add(77)
    for e in [m.spawn] + list(m.entities):
        for k in list(e.keys()):
            if k.casefold() not in ('classname', 'nodeid'):
                e[k] = e[k] + 'X'
        for o in e.outputs:
            o.target += '_x'
            o.delay += 1.0
        if e is not m.spawn:
            e.fixup['scribble'] = 'y'
            e.editor_color.y = (e.editor_color.y + 1) % 255
            e.visgroup_ids.add(78)
            e.groups.add(79)
    for cam in m.cameras:
        cam.pos.x += 5.0
        cam.target.z -= 5.0
    for c in m.cordons:
        c.bbox_min.x -= 1.0
        c.bbox_max.y += 1.0
    for vg in m.vis_tree:
        vg.name += '_x'
        vg.color.x = (vg.color.x + 1) % 255


def _reparse_phase(out: Outcome, m2: VMF, o2, t1: str, opts):
    """What a parse returns must not depend on earlier parses of the same text or on what their owner did with the
    result: scribble over the first result, parse the same text again, compare with the first observation, and look for
    mutable objects reachable from both results."""
    from machines.vmf_copy import walk_mutables
    try:
        _scribble(m2)
    except Exception as exc:
        out.event('scribble-raised', type(exc).__name__)
    try:
        m3 = VMF.parse(Keyvalues.parse(t1.replace('\r\n', '\n'), 'again.vmf'), preserve_ids=opts['preserve_ids'])
        o3 = G.obs_map(m3, minimal=opts['minimal'])
    except Exception as exc:
        out.violate('parse-history-dependent', f'raised|{type(exc).__name__}', f'second parse of the same text raised {exc!r}')
        return
    out.stats['reparse_phases'] += 1
    df = G.diff(o2, o3, tol_default=0.0)
    if df is not None:
        out.violate('parse-history-dependent:' + G.generic_path(df[0]), 'after-edit-of-first-result',
                    f'{df[0]}: first parse gave {str(df[1])[:120]!r}, a second parse of the same text (after the first result was edited in place) gives {str(df[2])[:120]!r}')
        return
    roots2 = [m2.spawn] + list(m2.entities) + list(m2.brushes) + list(m2.cameras) + list(m2.cordons) + list(m2.vis_tree) + list(m2.groups.values())
    roots3 = [m3.spawn] + list(m3.entities) + list(m3.brushes) + list(m3.cameras) + list(m3.cordons) + list(m3.vis_tree) + list(m3.groups.values())
    w2 = walk_mutables(roots2)
    w3 = walk_mutables(roots3)
    for key in w2:
        if key in w3:
            pa, _o = w2[key]
            pb, ob = w3[key]
            out.violate('parse-shares-state:' + G.generic_path(pb or pa), type(ob).__name__,
                        f'{type(ob).__name__} object reachable from two separate parses of the same text (first{pa}, second{pb})')
            break


def _drop_multiblend(o):
    for e in [o['spawn']] + o['entities']:
        for s in e['solids']:
            for sd in s['sides']:
                if sd['disp_power']:
                    for v in sd['disp']['verts']:
                        v['mb~'] = v['ma~'] = v['mc~'] = None


def _value_class(a, b):
    if isinstance(a, str) and isinstance(b, str):
        for x, y in zip(a, b):
            if x != y:
                return 'str:' + ('quote' if x == '"' else 'backslash' if x == '\\' else 'newline' if x in '\r\n' else 'other')
        return 'str:length'
    if isinstance(a, float) or isinstance(b, float):
        return 'number'
    return type(a).__name__


def _reject_culprit(e):
    msg = getattr(e, 'mess', None) or str(e)
    return ''.join(ch for ch in msg[:40] if ch.isalpha() or ch == ' ').strip().replace(' ', '_')[:30]


SHRINK_LISTS = ('steps',)


def simplify(case: dict):
    m = case.get('map')
    if m is None:
        return
    if case['delivery'].get('mode') != 'str':
        yield dict(case, delivery={'mode': 'str'})
    if case['sink'] != 'str':
        yield dict(case, sink='str')
    for k in ('entities', 'brushes', 'visgroups', 'groups', 'cameras', 'cordons'):
        lst = m[k]
        for i in range(len(lst)):
            m2 = dict(m)
            m2[k] = lst[:i] + lst[i + 1:]
            yield dict(case, map=m2)
    if m['viewports'] is not None:
        yield dict(case, map=dict(m, viewports=None))
    if m['spawn_keys']:
        yield dict(case, map=dict(m, spawn_keys={}))
    for i, e in enumerate(m['entities']):
        for fld, empty in (('outputs', []), ('fixups', []), ('solids', []), ('groups', []), ('vis_ids', []), ('comments', '')):
            if e[fld]:
                e2 = dict(e)
                e2[fld] = empty
                yield dict(case, map=dict(m, entities=m['entities'][:i] + [e2] + m['entities'][i + 1:]))
        if len(e['keys']) > 1:
            for k in list(e['keys']):
                if k != 'classname':
                    e2 = dict(e, keys={kk: vv for kk, vv in e['keys'].items() if kk != k})
                    yield dict(case, map=dict(m, entities=m['entities'][:i] + [e2] + m['entities'][i + 1:]))
        for j, s in enumerate(e['solids']):
            for s2 in _simpler_solids(s):
                e2 = dict(e, solids=e['solids'][:j] + [s2] + e['solids'][j + 1:])
                yield dict(case, map=dict(m, entities=m['entities'][:i] + [e2] + m['entities'][i + 1:]))
    for j, s in enumerate(m['brushes']):
        for s2 in _simpler_solids(s):
            yield dict(case, map=dict(m, brushes=m['brushes'][:j] + [s2] + m['brushes'][j + 1:]))
    for k, v in case['opts'].items():
        if v and k != 'disp_multiblend':
            yield dict(case, opts=dict(case['opts'], **{k: False}))


def _simpler_solids(s):
    if 'sides' in s:
        for i in range(len(s['sides'])):
            if len(s['sides']) > 1:
                yield dict(s, sides=s['sides'][:i] + s['sides'][i + 1:])
        for i, sd in enumerate(s['sides']):
            if 'disp' in sd:
                yield dict(s, sides=s['sides'][:i] + [{k: v for k, v in sd.items() if k != 'disp'}] + s['sides'][i + 1:])
                d = sd['disp']
                if d['multiblend']:
                    d2 = dict(d, multiblend=False, verts=[{k: v for k, v in vt.items() if k not in ('mb', 'ma', 'mc')} for vt in d['verts']])
                    yield dict(s, sides=s['sides'][:i] + [dict(sd, disp=d2)] + s['sides'][i + 1:])
                if d['power'] > 1:
                    size = 3
                    d2 = dict(d, power=1, verts=d['verts'][:size * size])
                    yield dict(s, sides=s['sides'][:i] + [dict(sd, disp=d2)] + s['sides'][i + 1:])
            if 'points' in sd:
                yield dict(s, sides=s['sides'][:i] + [{k: v for k, v in sd.items() if k != 'points'}] + s['sides'][i + 1:])
    if s.get('group_id') is not None:
        yield dict(s, group_id=None)
    if s.get('vis_ids'):
        yield dict(s, vis_ids=[])
    if s.get('hidden'):
        yield dict(s, hidden=False)

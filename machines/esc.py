"""C02 — escape_text and the tokenizer are exact inverses on every string, under every
delivery of the escaped text (the decoding loop fetches the character after a backslash with a
second refill, and folds CR LF with per-call state: both can straddle a chunk boundary).

The reference model is the string itself: the expected token list is known without running
any library code."""
from __future__ import annotations

from sim.core import Outcome, Rng
from sim.stream import Delivery
from sim import stepclock

from srctools import tokenizer as tokmod
from srctools.tokenizer import Tokenizer, Token, TokenSyntaxError
from srctools.keyvalues import KeyValError

PROP = 'C02'
LEVEL = 'exploration'
RUNS = {'quick': (1 + 15 + 225 + 3375) * 2 + 30000, 'thorough': (1 + 15 + 225 + 3375 + 50625) * 2 + 1500000}
BATCH = {'quick': 1000, 'thorough': 8000}
BUDGET_S = {'quick': 60.0, 'thorough': 1200.0}
RULE = ('one run = one string s, one escaping mode and one embedding template (bare, KeyValues line, VMF comment '
        'line, VMF fixup line, VMF output line, BSP entity-lump line, DMX-KV2 attribute line), tokenized under a '
        'list of delivery schedules: every single cut of the quoted text (|text| <= 48), every-char chunks, seeded '
        'multi-cuts with empty chunks, file object with 1..8-byte raw reads. Strings: all strings over the 15-symbol '
        'escape alphabet up to length 3 (quick) / 4 (thorough) in both modes, then seeded strings over that alphabet '
        'plus arbitrary Unicode scalars. Non-trivial: s contains an escape-alphabet character and a cut fell inside '
        'the quoted text. distinct = distinct event-log digest.')
STATE_MEASURE = 'distinct (escape pair class before the cut, mode) contexts a chunk boundary fell in'
REAL_VS_STUB = {
    'real': ['srctools.tokenizer.escape_text (Python)', 'srctools.tokenizer.Tokenizer._handle_string (Python)',
             'CPython TextIOWrapper/BufferedReader for file deliveries'],
    'stub': ['chunk producer / raw byte source'],
    'not_reached': ['srctools._tokenizer.escape_text (Cython)'],
}
ASSUMPTIONS = ['Python twin only', 'strings are sequences of Unicode scalar values (no lone surrogates)',
               'the quantifier over all strings is sampled (bounded-exhaustive up to the stated length)']

ESC_ALPHA = ['\\', '"', "'", '\r', '\n', '\t', '\v', '\b', '\f', '\a', '?', '/', 'n', 't', 'a']
assert len(ESC_ALPHA) == 15

stepclock.watch_module(tokmod)

KV_OPTS = dict(string_bracket=True, allow_escapes=True)
PLAIN_OPTS = dict(allow_escapes=True)
# name -> (text before the quoted string, text put inside the quotes before/after the escaped text,
#          text after, tokenizer options, expected tokens before, expected tokens after, forced multiline or None)
TEMPLATES = {
    'bare': ('', '', '', '', PLAIN_OPTS, [], [], None),
    'kv_value': ('\t"key" ', '', '', '\n', KV_OPTS, [['STRING', 'key']], [['NEWLINE', '\n']], False),
    'kv_name': ('\t', '', '', ' "value"\n', KV_OPTS, [], [['STRING', 'value'], ['NEWLINE', '\n']], False),
    'vmf_comment': ('\t\t"comments" ', '', '', '\n\t}\n', KV_OPTS, [['STRING', 'comments']],
                    [['NEWLINE', '\n'], ['BRACE_CLOSE', '}'], ['NEWLINE', '\n']], False),
    'vmf_fixup': ('\t"replace01" ', '$var ', '', '\n', KV_OPTS, [['STRING', 'replace01']], [['NEWLINE', '\n']], False),
    'vmf_output': ('\t\t"OnTrigger" ', 'targ\x1bFire\x1b', '\x1b0\x1b-1', '\n', KV_OPTS, [['STRING', 'OnTrigger']],
                   [['NEWLINE', '\n']], True),
    'bsp_ent': ('{\n"key" ', '', '', '\n}\n', PLAIN_OPTS, [['BRACE_OPEN', '{'], ['NEWLINE', '\n'], ['STRING', 'key']],
                [['NEWLINE', '\n'], ['BRACE_CLOSE', '}'], ['NEWLINE', '\n']], True),
    'dmx_kv2': ('\t"name" "string" ', '', '', '\r\n', PLAIN_OPTS, [['STRING', 'name'], ['STRING', 'string']],
                [['NEWLINE', '\n']], False),
}
TEMPLATE_NAMES = sorted(TEMPLATES)


def _string_of_index(i: int) -> str:
    length = 0
    while i >= 15 ** length:
        i -= 15 ** length
        length += 1
    chars = []
    for _ in range(length):
        chars.append(ESC_ALPHA[i % 15])
        i //= 15
    return ''.join(reversed(chars))


def _rand_string(r: Rng) -> str:
    n = r.randrange(0, 12) if r.chance(0.8) else r.randrange(12, 120)
    out = []
    for _ in range(n):
        x = r.random()
        if x < 0.6:
            out.append(r.pick(ESC_ALPHA))
        elif x < 0.8:
            out.append(chr(r.randrange(0x20, 0x7f)))
        elif x < 0.88:
            out.append(chr(r.randrange(0, 0x20)))
        else:
            while True:
                c = r.randrange(0x80, 0x110000)
                if not 0xD800 <= c <= 0xDFFF:
                    out.append(chr(c))
                    break
    return ''.join(out)


def gen(rng: Rng, tier: str, index: int) -> dict:
    maxlen = 3 if tier == 'quick' else 4
    nexh = sum(15 ** k for k in range(maxlen + 1))
    r = rng.child('cfg')
    if index < nexh * 2:
        si, ml = divmod(index, 2)
        s = _string_of_index(si)
        multiline = bool(ml)
        template = 'bare' if r.chance(0.5) else r.pick(TEMPLATE_NAMES)
        pop = 'exh'
    else:
        s = _rand_string(rng.child('s'))
        multiline = r.chance(0.5)
        template = r.pick(TEMPLATE_NAMES)
        pop = 'rand'
    return {'pop': pop, 's': s, 'multiline': multiline, 'template': template, 'sched_seed': r.randrange(1 << 30),
            'steps': None}


def _schedules(case, text, q0, q1):
    """Delivery schedules for the full text; the quoted region is text[q0:q1]."""
    if case.get('steps') is not None:
        return case['steps']
    r = Rng(case['sched_seed'])
    n = len(text)
    steps = [{'mode': 'str'}, {'mode': 'chunks', 'cuts': list(range(1, n))}]
    if q1 - q0 <= 48:
        steps += [{'mode': 'chunks', 'cuts': [c]} for c in range(max(1, q0), min(n, q1 + 1))]
    else:
        steps += [{'mode': 'chunks', 'cuts': [r.randrange(q0 + 1, q1)]} for _ in range(12)]
    for _ in range(3):
        m = r.randrange(1, 8)
        cuts = sorted({r.randrange(max(1, q0), min(n, q1 + 1)) for _ in range(m)}) if n > 1 else []
        steps.append({'mode': 'chunks', 'cuts': cuts,
                      'empties': [r.randrange(0, len(cuts) + 2) for _ in range(r.randrange(0, 3))]})
    steps.append({'mode': 'chunks', 'cuts': list(range(2, n, 2))})
    steps.append({'mode': 'file', 'newline': '', 'read_sizes': [r.randrange(1, 9) for _ in range(r.randrange(1, 4))],
                  'encoding': r.pick(['utf-8', 'utf-16-le'])})
    return steps


def _cls(c: str) -> str:
    return {'\\': 'bslash', '"': 'quote', "'": 'apos', '\r': 'CR', '\n': 'LF', '\t': 'TAB', '\v': 'VT', '\b': 'BS',
            '\f': 'FF', '\a': 'BEL', '?': 'qmark', '/': 'slash'}.get(c, 'plain' if c < '\x80' else 'unicode')


def _has_raw_quote(esc: str) -> bool:
    """A double quote that is not the second character of a backslash pair."""
    i = 0
    while i < len(esc):
        if esc[i] == '\\':
            i += 2
            continue
        if esc[i] == '"':
            return True
        i += 1
    return False


def run(case: dict) -> Outcome:
    out = Outcome()
    s = case['s']
    pre, ipre, ipost, post, opts, tpre, tpost, forced = TEMPLATES[case['template']]
    multiline = case['multiline'] if forced is None else forced
    # call history: the same text escaped in the other mode first, or the same call made before (a caller does both)
    warm = case.get('warm', case.get('seed', 0) % 3 if 'seed' in case else 0)
    try:
        if warm == 1:
            tokmod.escape_text(s, not multiline)
        elif warm == 2:
            tokmod.escape_text(s, multiline)
            tokmod.escape_text(s, not multiline)
    except Exception:
        pass
    try:
        esc = tokmod.escape_text(s, multiline)
    except Exception as e:
        out.violate('escape-raised', f'{type(e).__name__}', f'escape_text({s!r}, {multiline}) raised {e!r}')
        return out
    if not isinstance(esc, str):
        out.violate('escape-raised', 'not-str', f'escape_text({s!r}) returned {type(esc).__name__}')
        return out
    out.stats[f'call_history_{warm}'] += 1
    try:
        again = tokmod.escape_text(s, multiline)
    except Exception as e:
        again = repr(e)
    if again != esc:
        out.violate('escape-history-dependent', f'ml={int(multiline)}', f'escape_text({s!r}, {multiline}) gave {esc!r} and then {again!r}')
    if _has_raw_quote(esc):
        out.violate('raw-quote', f'ml={int(multiline)}', f'escape_text({s!r}, {multiline}) = {esc!r} contains a raw double quote')
    if not multiline and ('\n' in esc or '\r' in esc):
        out.violate('raw-newline', 'ml=0', f'escape_text({s!r}, False) = {esc!r} contains a raw line break')
    if multiline and '\r' in esc:
        out.violate('raw-newline', 'ml=1|CR', f'escape_text({s!r}, True) = {esc!r} contains a raw carriage return')
    text = f'{pre}"{ipre}{esc}{ipost}"{post}'
    q0 = len(pre)
    q1 = len(text) - len(post)
    expected = tpre + [['STRING', ipre + s + ipost]] + tpost
    steps = _schedules(case, text, q0, q1)
    special = any(c in ESC_ALPHA[:12] for c in s)
    out.event('text', text, expected)
    for step in steps:
        d = Delivery(text, step)
        out.steps += 1
        out.stats['delivery_' + d.mode] += 1
        got = []
        term = 'eof'
        try:
            with stepclock.clock(400 * (len(text) + 16)):
                tok = Tokenizer(d.source(), 'f', KeyValError if opts is KV_OPTS else TokenSyntaxError, **opts)
                while True:
                    t, v = tok()
                    if t is Token.EOF:
                        break
                    got.append([t.name, v])
                    if len(got) > len(text) + 2:
                        term = 'too-many'
                        break
        except TokenSyntaxError as e:
            term = f'error:{e.mess}'
        except stepclock.StepBudgetExceeded:
            term = 'steps'
        except Exception as e:
            term = f'exc:{type(e).__name__}:{e}'
        out.event(step, got if got != expected else 'ok', term)
        if got != expected or term != 'eof':
            # culprit: class of the first character where the decoded string departs from s
            mid = got[len(tpre)][1] if len(got) > len(tpre) and got[len(tpre)][0] == 'STRING' else None
            want = ipre + s + ipost
            if mid is None or term != 'eof' and len(got) <= len(tpre):
                culprit = f'{term.split(":")[0]}'
                clause = 'token-mismatch'
            elif mid != want:
                k = next((i for i, (a, b) in enumerate(zip(mid, want)) if a != b), min(len(mid), len(want)))
                culprit = _cls(want[k]) if k < len(want) else 'tail'
                clause = 'token-mismatch'
            else:
                culprit = 'after-string'
                clause = 'extra-token'
            out.violate(clause, f'ml={int(multiline)}|{"str" if d.mode == "str" else "chunked"}|{culprit}',
                        f's={s!r} multiline={multiline} template={case["template"]} escaped={esc!r} step={step}: '
                        f'expected {expected} then EOF, got {got} then {term}')
        if d.mode in ('chunks',) and d.pieces:
            pos = 0
            for p in d.pieces[:-1]:
                pos += len(p)
                if q0 < pos < q1:
                    if special:
                        out.nontrivial = True
                    out.states.add(f'{_cls(text[pos - 1])}>{_cls(text[pos])}|ml={int(multiline)}')
        elif d.mode == 'file' and special:
            out.nontrivial = True
    out.sample = {'s': s, 'multiline': multiline, 'template': case['template'], 'escaped': esc, 'text': text,
                  'expected': expected, 'steps': steps[:5]}
    return out


SHRINK_LISTS = ()


def simplify(case: dict):
    s = case['s']
    if case.get('steps') is None:
        # freeze the schedule list so that steps can be dropped one by one
        pre, ipre, ipost, post, opts, tpre, tpost, forced = TEMPLATES[case['template']]
        multiline = case['multiline'] if forced is None else forced
        try:
            esc = tokmod.escape_text(s, multiline)
            text = f'{pre}"{ipre}{esc}{ipost}"{post}'
            c = dict(case)
            c['steps'] = _schedules(case, text, len(pre), len(text) - len(post))
            yield c
        except Exception:
            pass
    else:
        steps = case['steps']
        if len(steps) > 1:
            for i in range(len(steps)):
                c = dict(case)
                c['steps'] = [steps[i]]
                yield c
    if case['template'] != 'bare':
        yield dict(case, template='bare', steps=None)
    for p in range(len(s)):
        yield dict(case, s=s[:p] + s[p + 1:], steps=None)
    for p, ch in enumerate(s):
        if ch not in ESC_ALPHA and ch != 'a':
            yield dict(case, s=s[:p] + 'a' + s[p + 1:], steps=None)

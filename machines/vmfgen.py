"""Shared VMF workload: seeded *specs* of map content (JSON-able), a builder that realises a
spec through the public API of srctools.vmf, and an observation function that walks a VMF object
graph into plain data.  Used by the C06/C08/C09/C17 machines."""
from __future__ import annotations

import math
from array import array

from sim.core import Rng

from srctools import vmf as V
from srctools.math import Vec, Angle
from srctools.vmf import VMF, Entity, Solid, Side, UVAxis, Output, VisGroup, EntityGroup, Camera, Cordon, DispVertex, Vec4

NASTY = ['"', '\\', '{', '}', '[', ']', '\t', 'é', '\\n', "'", ' ', '/', '*', '#', '$', '%', ':', ';', '+']
PLAIN = 'abcdefXYZ_0123456789'


def rstr(r: Rng, nasty=0.3, newline=False, maxlen=10) -> str:
    n = r.randrange(0, maxlen)
    out = []
    for _ in range(n):
        if r.chance(nasty):
            out.append(r.pick(NASTY))
        else:
            out.append(r.pick(PLAIN))
    if newline and r.chance(0.2):
        out.insert(r.randrange(len(out) + 1), '\n')
    return ''.join(out)


def rname(r: Rng) -> str:
    return ''.join(r.pick(PLAIN) for _ in range(r.randrange(1, 8)))


def rfloat(r: Rng, kind='coord') -> float:
    """Numbers whose exported text denotes them within the statement's tolerance."""
    x = r.random()
    if kind == 'coord':
        if x < 0.4:
            return float(r.randrange(-4096, 4096))
        if x < 0.7:
            return r.randrange(-4096 * 8, 4096 * 8) / 8
        if x < 0.85:
            return round(r.uniform(-16384, 16384), r.randrange(0, 7))
        return r.uniform(-16384, 16384)
    if kind == 'unit':
        return r.pick([0.0, 1.0, -1.0, 0.5, round(r.uniform(-1, 1), 6), r.uniform(-1, 1)])
    if kind == 'small':
        return r.pick([0.0, 0.25, 1.0, 16.0, round(r.uniform(0.01, 64), 4), r.uniform(-512, 512)])
    raise ValueError(kind)


def rvec(r: Rng, kind='coord'):
    return [rfloat(r, kind), rfloat(r, kind), rfloat(r, kind)]


# ------------------------------------------------------------------ specs
def gen_side(r: Rng, rich: float, disp_ok=True) -> dict:
    s = {
        'planes': [rvec(r), rvec(r), rvec(r)],
        'mat': r.pick(['tools/toolsnodraw', 'BRICK/brickwall001a', 'dev/dev_measuregeneric01', 'Concrete/Floor_01'])
        if r.chance(0.8) else 'mat/' + rstr(r, 0.2),
        'rot': r.pick([0.0, 90.0, 45.5, 180.0, round(r.uniform(0, 360), 3), r.uniform(0, 360)]),
        'lightmap': r.pick([16, 16, 8, 32, 128, 1]),
        'smooth': r.pick([0, 0, 1, 3, 1 << 20]),
        'u': rvec(r, 'unit') + [rfloat(r, 'small'), r.pick([0.25, 0.25, 1.0, 0.125, round(r.uniform(0.05, 4), 4)])],
        'v': rvec(r, 'unit') + [rfloat(r, 'small'), r.pick([0.25, 0.25, 1.0, 0.5, round(r.uniform(0.05, 4), 4)])],
        'des_id': r.pick([-1, -1, -1, 0, -5, r.randrange(1, 40), 10 ** 6]),
    }
    if r.chance(rich * 0.4):
        s['points'] = [rvec(r) for _ in range(r.randrange(3, 9))]
    if disp_ok and r.chance(rich * 0.35):
        power = r.pick([1, 1, 2, 2, 3, 4])
        size = 2 ** power + 1
        d = {
            'power': power, 'pos': rvec(r), 'elev': r.pick([0.0, 1.0, round(r.uniform(-10, 10), 3)]),
            'flags': r.randrange(0, 16), 'subdiv': r.chance(0.3),
            'allowed': [r.pick([-1, -1, 0, 1, 0x7fffffff, -0x80000000, r.randrange(-2 ** 31, 2 ** 31)]) for _ in range(10)]
            if r.chance(0.6) else [-1] * 10,
            'verts': [],
            'multiblend': r.chance(0.4),
        }
        dense = r.chance(0.5)
        for i in range(size * size):
            if dense or r.chance(0.2):
                v = {'n': rvec(r, 'unit'), 'd': rfloat(r, 'small'), 'o': rvec(r, 'small') if r.chance(0.3) else [0.0, 0.0, 0.0],
                     'on': rvec(r, 'unit') if r.chance(0.3) else [0.0, 0.0, 1.0], 'a': r.pick([0.0, 255.0, 127.5, float(r.randrange(256))]),
                     'ta': r.pick([0, 1, 9]), 'tb': r.pick([0, 1, 9])}
            else:
                v = {'n': [0.0, 0.0, 1.0], 'd': 0.0, 'o': [0.0, 0.0, 0.0], 'on': [0.0, 0.0, 1.0], 'a': 0.0, 'ta': 9, 'tb': 9}
            if d['multiblend']:
                v['mb'] = [round(r.random(), 4) for _ in range(4)] if (i == 0 or r.chance(0.5)) else [0.0] * 4
                v['ma'] = [round(r.random(), 4) for _ in range(4)]
                v['mc'] = [[round(r.random(), 3) for _ in range(3)] for _ in range(4)]
            d['verts'].append(v)
        if d['multiblend']:
            d['verts'][0]['mb'] = [0.5, 0.25, 0.125, 1.0]
        s['disp'] = d
    return s


def gen_solid(r: Rng, rich: float, nvis: int, ngroups: int) -> dict:
    s = {
        'des_id': r.pick([-1, -1, 0, -3, r.randrange(1, 30), 10 ** 6]),
        'hidden': r.chance(rich * 0.2),
        'vis_ids': sorted({r.randrange(1, nvis + 1) for _ in range(r.randrange(0, 3))}) if nvis and r.chance(rich * 0.5) else [],
        'group_id': r.randrange(1, ngroups + 1) if ngroups and r.chance(rich * 0.5) else None,
        'vis_shown': not r.chance(rich * 0.3), 'vis_auto_shown': not r.chance(rich * 0.3),
        'is_cordon': r.chance(rich * 0.1),
        'color': [float(r.randrange(256)) for _ in range(3)],
    }
    if r.chance(0.5):
        a = [float(r.randrange(-512, 512)) for _ in range(3)]
        s['prism'] = [a, [a[0] + r.randrange(1, 256), a[1] + r.randrange(1, 256), a[2] + r.randrange(1, 256)], r.chance(rich * 0.3)]
        s['edit_sides'] = [gen_side(r, rich) if r.chance(0.3) else None for _ in range(6)]
    else:
        s['sides'] = [gen_side(r, rich) for _ in range(r.randrange(1, 7))]
    return s


def gen_output(r: Rng, comma_ok=True) -> dict:
    comma = comma_ok and r.chance(0.3)
    bad = ',\x1b' if comma else '\x1b'

    def clean(s):
        return ''.join(ch for ch in s if ch not in bad and ch not in '\r\n')
    o = {
        'out': r.pick(['OnTrigger', 'OnUser1', 'OnStartTouch', clean(rstr(r, 0.2)) or 'OnX']),
        'target': r.pick(['relay', 'door*', '!self', clean(rstr(r, 0.3)), '@glob']),
        'inp': r.pick(['Trigger', 'Kill', 'FireUser1', clean(rstr(r, 0.2)) or 'In']),
        'param': r.pick(['', '', '1', clean(rstr(r, 0.4, newline=True)), 'a b c'] + (['x,y,z'] if comma else [])),
        'delay': r.pick([0.0, 0.0, 1.0, 0.5, round(r.uniform(0, 100), 3), r.uniform(0, 1000)]),
        'times': r.pick([-1, -1, 1, 5]),
        'comma': comma,
        'inst_out': r.pick([None, None, None, 'ent_a']),
        'inst_in': r.pick([None, None, None, 'ent_b']),
    }
    if o['out'].casefold().startswith('instance:') or o['inp'].casefold().startswith('instance:'):
        o['out'], o['inp'] = 'OnX', 'In'
    if comma and o['param'].count(',') and False:
        pass
    return o


def gen_entity(r: Rng, rich: float, nvis: int, ngroups: int, brush=None) -> dict:
    cls = r.pick(['info_target', 'func_detail', 'logic_relay', 'prop_static', 'func_instance', 'Func_Door', 'info_node'])
    keys = {'classname': cls}
    if r.chance(0.6):
        keys['targetname'] = r.pick(['relay', 'Door', 'door_1', rname(r)])
    if r.chance(0.7):
        keys['origin'] = ' '.join(str(float(r.randrange(-512, 512))) for _ in range(3))
    if r.chance(0.5):
        keys['angles'] = f'{r.randrange(0, 360)} {r.randrange(0, 360)} 0'
    for _ in range(r.randrange(0, 4)):
        k = rname(r) if r.chance(0.85) else (rstr(r, 0.5 * rich, maxlen=6) or 'k')
        if k.casefold().startswith('replace') or k.casefold() in ('id',):
            k = 'k' + k
        if any(k.casefold() == x.casefold() for x in keys):
            continue
        keys[k] = rstr(r, 0.4 * rich, newline=True, maxlen=14)
    if cls == 'info_node' or r.chance(0.1):
        keys['nodeid'] = str(r.pick([1, 2, 2, 3, 7]))
    e = {
        'keys': keys,
        'des_id': r.pick([-1, -1, 0, -2, r.randrange(1, 20), 10 ** 6]),
        'outputs': [gen_output(r) for _ in range(r.randrange(0, 4))] if r.chance(0.5) else [],
        'fixups': [],
        'hidden': r.chance(rich * 0.15),
        'groups': sorted({r.randrange(1, ngroups + 1) for _ in range(r.randrange(1, 3))}) if ngroups and r.chance(rich * 0.4) else [],
        'vis_ids': sorted({r.randrange(1, nvis + 1) for _ in range(r.randrange(1, 3))}) if nvis and r.chance(rich * 0.4) else [],
        'vis_shown': not r.chance(rich * 0.3), 'vis_auto_shown': not r.chance(rich * 0.3),
        'logical_pos': r.pick([None, None, '[0 500]', '[1000 -2500]']),
        'color': [float(r.randrange(256)) for _ in range(3)],
        'comments': r.pick(['', '', 'a comment', rstr(r, 0.4, newline=True, maxlen=20)]) if r.chance(rich) else '',
        'solids': [],
    }
    if r.chance(0.4):
        used = set()
        for _ in range(r.randrange(1, 5)):
            var = rname(r) if r.chance(0.85) else (rstr(r, 0.5 * rich, maxlen=6).replace(' ', '').replace('$', '').replace('\t', '') or 'v')
            if var.casefold() in used:
                continue
            used.add(var.casefold())
            val = rstr(r, 0.3 * rich, maxlen=8)
            e['fixups'].append([var, val, r.pick([1, 1, 2, 3, 3, 7, 0, 12])])
    nb = brush if brush is not None else (r.randrange(1, 3) if cls in ('func_detail', 'Func_Door') or r.chance(0.15) else 0)
    for _ in range(nb):
        e['solids'].append(gen_solid(r, rich, nvis, 0))
    return e


def gen_visgroup(r: Rng, depth=0) -> dict:
    return {'name': r.pick(['Auto', 'Props', rstr(r, 0.3) or 'g']), 'des_id': r.pick([-1, -1, r.randrange(1, 6), 0]),
            'color': [float(r.randrange(256)) for _ in range(3)],
            'children': [gen_visgroup(r, depth + 1) for _ in range(r.randrange(0, 3))] if depth < 2 and r.chance(0.4) else []}


def gen_map(r: Rng, size='small') -> dict:
    rich = r.pick([0.0, 0.3, 0.7, 1.0])
    nvis_top = r.randrange(0, 3) if rich else 0
    vis = [gen_visgroup(r) for _ in range(nvis_top)]

    def count(v):
        return 1 + sum(count(c) for c in v['children'])
    nvis = sum(count(v) for v in vis)
    ngroups = r.randrange(0, 3) if rich else 0
    nent = {'tiny': r.randrange(0, 3), 'small': r.randrange(0, 6), 'medium': r.randrange(3, 14)}[size]
    nbr = {'tiny': r.randrange(0, 2), 'small': r.randrange(0, 4), 'medium': r.randrange(1, 8)}[size]
    m = {
        'rich': rich,
        'settings': {
            'hammer_version': r.pick([400, 400, 0, 8870]), 'hammer_build': r.pick([5304, 8870, 0]),
            'map_version': r.randrange(0, 500), 'is_prefab': r.chance(0.2),
            'cordon_enabled': r.chance(0.3), 'show_grid': not r.chance(0.3), 'show_3d_grid': r.chance(0.3),
            'snap_grid': not r.chance(0.3), 'show_logic_grid': r.chance(0.3), 'grid_spacing': r.pick([64, 1, 16, 512]),
            'active_cam': -1, 'quickhide_count': r.pick([0, 0, 3]),
        },
        'strata_vis': r.pick([None, None, 0, 1, 2]),
        'viewports': None,
        'spawn_keys': {'skyname': r.pick(['sky_day01_01', 'sky"x']), 'detailmaterial': 'detail/detailsprites'} if r.chance(0.6) else {},
        'visgroups': vis,
        'groups': [{'des_id': r.pick([-1, i + 1, i + 1]), 'shown': not r.chance(0.3), 'auto_shown': not r.chance(0.3),
                    'color': [float(r.randrange(256)) for _ in range(3)]} for i in range(ngroups)],
        'cameras': [{'pos': rvec(r), 'target': rvec(r)} for _ in range(r.randrange(0, 3))] if rich else [],
        'cordons': [{'min': rvec(r), 'max': rvec(r), 'active': r.chance(0.5), 'name': r.pick(['cordon', 'Cordon', rstr(r, 0.3) or 'c'])}
                    for _ in range(r.randrange(0, 3))] if rich else [],
        'brushes': [gen_solid(r, rich, nvis, ngroups) for _ in range(nbr)],
        'entities': [gen_entity(r, rich, nvis, ngroups) for _ in range(nent)],
    }
    if m['cameras'] and r.chance(0.6):
        m['settings']['active_cam'] = r.randrange(1, len(m['cameras']) + 1)
    if rich and r.chance(0.3):
        vps = []
        for i in range(4):
            if (i == 0 and r.chance(0.8)) or r.chance(0.15):
                vps.append({'3d': True, 'pos': rvec(r), 'ang': [float(r.randrange(0, 360)), float(r.randrange(0, 360)), 0.0]})
            else:
                vps.append({'3d': False, 'axis': r.pick(['x', 'y', 'z']), 'u': float(r.randrange(-1000, 1000)) or 1.0,
                            'v': float(r.randrange(-1000, 1000)) or 1.0, 'zoom': r.pick([1.0, 0.25, 2.5])})
        m['viewports'] = vps
    return m


# ------------------------------------------------------------------ building through the public API
def build_side(vmf: VMF, s: dict, side: Side = None) -> Side:
    if side is None:
        side = Side(vmf, [Vec(*p) for p in s['planes']], s['des_id'], s['lightmap'], s['smooth'], s['mat'], s['rot'],
                    UVAxis(*s['u']), UVAxis(*s['v']), disp_power=s['disp']['power'] if 'disp' in s else 0)
    else:
        side.mat = s['mat']
        side.ham_rot = s['rot']
        side.lightmap = s['lightmap']
        side.smooth = s['smooth']
        side.uaxis = UVAxis(*s['u'])
        side.vaxis = UVAxis(*s['v'])
        if 'disp' in s:
            return side     # prism sides stay flat
    if 'points' in s:
        side.strata_points = [Vec(*p) for p in s['points']]
    if 'disp' in s:
        d = s['disp']
        side.disp_pos = Vec(*d['pos'])
        side.disp_elevation = d['elev']
        fl = V._DISP_FLAG_TO_COLL[d['flags']]
        if d['subdiv']:
            fl |= V.DispFlag.SUBDIV
        side.disp_flags = fl
        side.disp_allowed_vert = array('i', d['allowed'])
        size = side.disp_size
        for i, v in enumerate(d['verts']):
            vert = side[i % size, i // size]
            vert.normal = Vec(*v['n'])
            vert.distance = v['d']
            vert.offset = Vec(*v['o'])
            vert.offset_norm = Vec(*v['on'])
            vert.alpha = v['a']
            vert.triangle_a = V.TriangleTag(v['ta'])
            vert.triangle_b = V.TriangleTag(v['tb'])
            if 'mb' in v:
                vert.multi_blend = Vec4(*v['mb'])
                vert.multi_alpha = Vec4(*v['ma'])
                vert.multi_colors = [Vec(*c) for c in v['mc']]
    return side


def build_solid(vmf: VMF, s: dict) -> Solid:
    if 'prism' in s:
        a, b, pts = s['prism']
        pf = vmf.make_prism(Vec(*a), Vec(*b), set_points=pts)
        solid = pf.solid
        for side, spec in zip(solid.sides, s['edit_sides']):
            if spec is not None:
                build_side(vmf, spec, side)
    else:
        solid = Solid(vmf, s['des_id'], [build_side(vmf, x) for x in s['sides']])
    solid.visgroup_ids = set(s['vis_ids'])
    solid.hidden = s['hidden']
    solid.group_id = s['group_id']
    solid.vis_shown = s['vis_shown']
    solid.vis_auto_shown = s['vis_auto_shown']
    solid.is_cordon = s['is_cordon']
    solid.editor_color = Vec(*s['color'])
    return solid


def build_output(o: dict) -> Output:
    return Output(o['out'], o['target'], o['inp'], o['param'], o['delay'], times=o['times'], inst_out=o['inst_out'],
                  inst_in=o['inst_in'], comma_sep=o['comma'])


def build_entity(vmf: VMF, e: dict, add=True) -> Entity:
    ent = Entity(
        vmf, keys=e['keys'], fixup=[V.FixupValue(v, val, i) for v, val, i in e['fixups']], ent_id=e['des_id'],
        outputs=[build_output(o) for o in e['outputs']], solids=[build_solid(vmf, s) for s in e['solids']],
        hidden=e['hidden'], groups=e['groups'], vis_ids=e['vis_ids'], vis_shown=e['vis_shown'],
        vis_auto_shown=e['vis_auto_shown'], logical_pos=e['logical_pos'], editor_color=Vec(*e['color']), comments=e['comments'],
    )
    if add:
        vmf.add_ent(ent)
    return ent


def build_visgroup(vmf: VMF, v: dict) -> VisGroup:
    return VisGroup(vmf, v['name'], v['des_id'], Vec(*v['color']), [build_visgroup(vmf, c) for c in v['children']])


def build_map(m: dict) -> VMF:
    st = m['settings']
    vmf = VMF(
        hammer_version=st['hammer_version'], hammer_build=st['hammer_build'], is_prefab=st['is_prefab'],
        cordon_enabled=st['cordon_enabled'], map_version=st['map_version'], show_grid=st['show_grid'],
        show_3d_grid=st['show_3d_grid'], snap_grid=st['snap_grid'], show_logic_grid=st['show_logic_grid'],
        grid_spacing=st['grid_spacing'], active_cam=st['active_cam'], quickhide_count=st['quickhide_count'],
        strata_inst_visibility=None if m['strata_vis'] is None else V.StrataInstanceVisibility(m['strata_vis']),
    )
    if m['viewports'] is not None:
        vps = []
        for vp in m['viewports']:
            if vp['3d']:
                vps.append(V.Strata3DViewport(Vec(*vp['pos']), Angle(*vp['ang'])))
            else:
                vps.append(V.Strata2DViewport(vp['axis'], vp['u'], vp['v'], vp['zoom']))
        vmf.strata_viewports = vps
    for k, v in m['spawn_keys'].items():
        vmf.spawn[k] = v
    for v in m['visgroups']:
        vmf.vis_tree.append(build_visgroup(vmf, v))
    for g in m['groups']:
        grp = EntityGroup(vmf, g['des_id'], g['shown'], g['auto_shown'], Vec(*g['color']))
        vmf.groups[grp.id] = grp
    for c in m['cameras']:
        Camera(vmf, Vec(*c['pos']), Vec(*c['target']))
    for c in m['cordons']:
        Cordon(vmf, Vec(*c['min']), Vec(*c['max']), c['active'], c['name'])
    for b in m['brushes']:
        vmf.add_brush(build_solid(vmf, b))
    for e in m['entities']:
        build_entity(vmf, e)
    return vmf


# ------------------------------------------------------------------ observation (plain data)
def fv(x) -> float:
    return float(x)


def ovec(v) -> list:
    return [fv(v.x), fv(v.y), fv(v.z)]


def obs_side(s: Side) -> dict:
    o = {
        'id': s.id, 'planes': [ovec(p) for p in s.planes], 'mat': s.mat, 'rot~': fv(s.ham_rot), 'lightmap': s.lightmap,
        'smooth': s.smooth,
        'uaxis': [fv(s.uaxis.x), fv(s.uaxis.y), fv(s.uaxis.z), fv(s.uaxis.offset), fv(s.uaxis.scale)],
        'vaxis': [fv(s.vaxis.x), fv(s.vaxis.y), fv(s.vaxis.z), fv(s.vaxis.offset), fv(s.vaxis.scale)],
        'points': None if s.strata_points is None else [ovec(p) for p in s.strata_points],
        'disp_power': s.disp_power,
    }
    if s.disp_power:
        has_mb = any(bool(v.multi_blend) for v in s._disp_verts)
        size = s.disp_size
        o['disp'] = {
            'pos': ovec(s.disp_pos), 'elev': fv(s.disp_elevation), 'flags': s.disp_flags.value,
            'allowed': list(s.disp_allowed_vert),
            'verts': [{
                'n': ovec(v.normal), 'd': fv(v.distance), 'o': ovec(v.offset), 'on': ovec(v.offset_norm), 'a': fv(v.alpha),
                # tags are per quad: those of the last row/column are documented as ignored and are not stored
                'ta': v.triangle_a.value if v.x < size - 1 and v.y < size - 1 else None,
                'tb': v.triangle_b.value if v.x < size - 1 and v.y < size - 1 else None,
                # multiblend data is only part of the exported map when some vertex blends (writer's documented rule)
                'mb~': [fv(v.multi_blend.x), fv(v.multi_blend.y), fv(v.multi_blend.z), fv(v.multi_blend.w)] if has_mb else None,
                'ma~': [fv(v.multi_alpha.x), fv(v.multi_alpha.y), fv(v.multi_alpha.z), fv(v.multi_alpha.w)] if has_mb else None,
                'mc~': ([ovec(c) for c in v.multi_colors] if v.multi_colors is not None else [[1.0, 1.0, 1.0]] * 4) if has_mb else None,
            } for v in s._disp_verts],
        }
    return o


def obs_solid(s: Solid, in_entity=False) -> dict:
    return {
        'id': s.id, 'sides': [obs_side(x) for x in s.sides], 'hidden': s.hidden,
        'vis_ids': None if in_entity else sorted(s.visgroup_ids), 'group_id': None if in_entity else s.group_id,
        'vis_shown': s.vis_shown, 'vis_auto_shown': s.vis_auto_shown, 'is_cordon': s.is_cordon,
        'color': ovec(s.editor_color),
    }


def obs_output(o: Output) -> dict:
    return {'out': o.output, 'inst_out': o.inst_out or None, 'target': o.target, 'inp': o.input, 'inst_in': o.inst_in or None,
            'param': o.params, 'delay~': fv(o.delay), 'times': o.times, 'comma': o.comma_sep}


def obs_entity(e: Entity, world=False) -> dict:
    return {
        # 'mapversion' on worldspawn is the exporter's mirror of VMF.map_ver, not map content
        'id': e.id, 'keys': {k: v for k, v in sorted(e._keys.items()) if not (world and k.casefold() == 'mapversion')},
        'fixups': sorted([f.id, f.var, f.value] for f in (e._fixup._fixup.values() if e._fixup is not None else [])),
        'outputs': [obs_output(o) for o in e.outputs],
        'solids': [obs_solid(s, in_entity=not world) for s in e.solids],
        'hidden': e.hidden, 'groups': None if world else sorted(e.groups), 'vis_ids': None if world else sorted(e.visgroup_ids),
        'vis_shown': None if world else e.vis_shown, 'vis_auto_shown': None if world else e.vis_auto_shown,
        'logical_pos': None if world else e.logical_pos, 'color': ovec(e.editor_color), 'comments': e.comments,
    }


def obs_visgroup(v: VisGroup) -> dict:
    return {'name': v.name, 'id': v.id, 'color': ovec(v.color), 'children': [obs_visgroup(c) for c in v.child_groups]}


def obs_map(vmf: VMF, minimal=False) -> dict:
    o = {
        'hammer_ver': vmf.hammer_ver, 'hammer_build': vmf.hammer_build, 'map_ver': vmf.map_ver, 'format_ver': vmf.format_ver,
        'is_prefab': vmf.is_prefab,
        'visgroups': [obs_visgroup(v) for v in vmf.vis_tree],
        'spawn': obs_entity(vmf.spawn, world=True),
        'groups': sorted(([g.id, g.shown, g.auto_shown, ovec(g.color)] for g in vmf.groups.values()), key=lambda x: x[0]),
        'entities': [obs_entity(e) for e in vmf.entities],
        'quickhide': vmf.quickhide_count,
    }
    if not minimal:
        o.update({
            'show_grid': vmf.show_grid, 'show_3d_grid': vmf.show_3d_grid, 'snap_grid': vmf.snap_grid,
            'show_logic_grid': vmf.show_logic_grid, 'grid_spacing': vmf.grid_spacing,
            'strata_vis': None if vmf.strata_instance_vis is None else vmf.strata_instance_vis.value,
            'viewports': None if vmf.strata_viewports is None else [
                ['3d', ovec(vp.position), [fv(vp.angle.pitch), fv(vp.angle.yaw), fv(vp.angle.roll)]] if isinstance(vp, V.Strata3DViewport)
                else ['2d', vp.axis, fv(vp.u), fv(vp.v), fv(vp.zoom)] for vp in vmf.strata_viewports],
            'active_cam': vmf.active_cam if vmf.cameras else -1,
            'cameras': [[ovec(c.pos), ovec(c.target)] for c in vmf.cameras],
            'cordon_enabled': vmf.cordon_enabled if vmf.cordons else False,
            'cordons': [[c.name, c.active, ovec(c.bounds_min), ovec(c.bounds_max)] for c in vmf.cordons],
        })
    return o


def diff(a, b, path='', tol_default=5e-7):
    """First difference between two observations.  Floats: within 5e-7 absolute, or (for keys ending in '~')
    within six significant digits.  Returns (path, a, b) or None."""
    if isinstance(a, dict) and isinstance(b, dict):
        for k in a:
            if k not in b:
                return path + '/' + k, a[k], '<missing>'
            sig = k.endswith('~')
            d = diff(a[k], b[k], path + '/' + k, 'sig' if sig else tol_default)
            if d:
                return d
        for k in b:
            if k not in a:
                return path + '/' + k, '<missing>', b[k]
        return None
    if isinstance(a, (list, tuple)) and isinstance(b, (list, tuple)):
        if len(a) != len(b):
            return path + '/len', len(a), len(b)
        for i, (x, y) in enumerate(zip(a, b)):
            d = diff(x, y, f'{path}[{i}]', tol_default)
            if d:
                return d
        return None
    if isinstance(a, float) and isinstance(b, (float, int)) and not isinstance(b, bool) or \
            isinstance(b, float) and isinstance(a, (float, int)) and not isinstance(a, bool):
        if a == b:
            return None
        if math.isnan(a) or math.isnan(b):
            return path, a, b
        if tol_default == 'sig':
            if abs(a - b) <= 5.1e-6 * max(abs(a), abs(b)) + 1e-12:
                return None
        elif tol_default and abs(a - b) <= tol_default * 1.0000001 + 4 * math.ulp(max(abs(a), abs(b))):
            # the bound of the statement is a decimal one; a binary float exactly half-way between two 6-place decimals
            # can sit one rounding error beyond it (found by the thorough tier: -11577.7287885 -> "-11577.728789")
            return None
        return path, a, b
    if a != b:
        return path, a, b
    return None


def generic_path(path: str) -> str:
    """Attribute path with indices removed (fingerprint culprit)."""
    out = []
    skip = False
    for ch in path:
        if ch == '[':
            skip = True
        elif ch == ']':
            skip = False
        elif not skip:
            out.append(ch)
    return ''.join(out)

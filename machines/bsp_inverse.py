"""C11 — every BSP lump writer is the inverse of its reader.

The writers are not functions of the assigned value alone (they call find_or_insert /
find_or_extend on *other* views, parsing them lazily in the middle of save(), in
LUMP_REBUILD_ORDER), so the check is a history: seeded views accessed first, seeded well-formed
values assigned, save() to the simulated disk, reopen, compare every view."""
from __future__ import annotations

import io
import sys

from sim.core import Outcome, Rng
from sim import simfs
from sim.simfs import SimFS
from machines import bspgen as G
from machines.vmfgen import diff, generic_path

from srctools import bsp as B
from srctools.bsp import BSP
from srctools.math import Vec

PROP = 'C11'
LEVEL = 'exploration'
RUNS = {'quick': 8000, 'thorough': 500000}
BATCH = {'quick': 100, 'thorough': 1000}
BUDGET_S = {'quick': 70.0, 'thorough': 1500.0}
RULE = ('one run = a hand-packed minimal map (BSP v19/20/21 and the INFRA v22, Chaos v25, VitaminSource v43 layouts; optional L4D2 header order, optional LZMA-compressed lumps) '
        'opened with the library, a seeded subset of views accessed first, seeded well-formed values assigned to a seeded '
        'subset of the 16 value groups (texinfo/texdata/names, planes, vertexes+surfedges, primitives, faces+orig+HDR, '
        'brushes+sides, nodes+leafs, water info, visibility, cubemaps, overlays, entity lump with either output separator, '
        'brush models with physics, static props of a seeded format version, detail props, pakfile), saved, reopened and '
        'every view compared with what was assigned; overflow runs push one field outside its on-disk range. Non-trivial: '
        '>=2 groups assigned of which one references another (shared sub-objects). distinct = distinct event-log digest.')
STATE_MEASURE = 'distinct (group, BSP version, static prop version, container variant) combinations assigned'
REAL_VS_STUB = {'real': ['srctools.bsp (all _lmp_read_*/_lmp_write_* pairs, ParsedLump, save, read)', 'srctools.binformat', 'AtomicWriter'],
                'stub': ['disk (sim/simfs.py)', 'independent container codec sim/refmodels/bspcontainer.py (builds the input file)']}
ASSUMPTIONS = ['numbers are float32-representable; integers inside the field unless the run is an overflow run',
               'values follow what a compiled map contains: HDR faces parallel to LDR faces, every face has an original face and a Hammer ID, '
               'physics solids come with keyvalues, material names are not distinguished by letter case, the dummy edge 0 sits on a (0,0,0) vertex',
               'INFRA / Chaos v25 / VitaminSource layouts are not generated (no independent sample of those containers is available offline)']

OVERFLOWS = ['node-mins', 'leaf-cluster', 'face-lightmap', 'overlay-faces', 'texture-name', 'prim-index', 'cubemap-size', 'prop-skin',
             'prop-flags-secondary', 'prop-tint', 'detail-leaf', 'overlay-order', 'leaf-area', 'plane-dist', 'prop-dx', 'prop-leaf-index']


def gen(rng: Rng, tier: str, index: int) -> dict:
    r = rng.child('cfg')
    version = r.pick([19, 20, 20, 21, 21, 21, 22, 25, 25, 43, 43])     # 22 = INFRA, 25 = Chaos, 43 = VitaminSource layouts
    groups = [g for g in G.ALL_GROUPS if r.chance(0.45)]
    if not groups:
        groups = [r.pick(G.ALL_GROUPS)]
    case = {
        'version': version, 'l4d2': version == 21 and r.chance(0.3), 'groups': groups, 'value_seed': r.randrange(1 << 40),
        'pre_access': [v for v in G.VIEWS if r.chance(0.15)], 'compress': sorted(r.sample(range(64), r.randrange(0, 6))) if r.chance(0.3) else [],
        'compress_game': r.chance(0.2), 'overflow': r.pick(OVERFLOWS) if r.chance(0.15) else None, 'steps': [],
    }
    return case


VIEW_DEPS = {
    'surfedges': {'vertexes'}, 'faces': {'planes', 'surfedges', 'texinfo', 'primitives', 'orig_faces'},
    'orig_faces': {'planes', 'surfedges', 'texinfo', 'primitives'}, 'hdr_faces': {'planes', 'surfedges', 'texinfo', 'primitives', 'orig_faces'},
    'brushes': {'planes', 'texinfo'}, 'visleafs': {'faces', 'brushes'}, 'nodes': {'planes', 'faces', 'visleafs'}, 'water_leaf_info': {'texinfo'},
    'bmodels': {'nodes', 'faces', 'ents'}, 'overlays': {'texinfo'}, 'props': {'visleafs'}, 'texinfo': {'textures'},
}
GROUP_VIEWS = {'tex': {'textures', 'texinfo'}, 'planes': {'planes'}, 'edges': {'vertexes', 'surfedges'}, 'prims': {'primitives'},
               'faces': {'orig_faces', 'faces', 'hdr_faces', 'planes', 'vertexes', 'surfedges', 'primitives', 'textures', 'texinfo'},
               'brushes': {'brushes', 'planes', 'textures', 'texinfo'}, 'tree': {'nodes', 'visleafs', 'planes'}, 'water': {'water_leaf_info', 'textures', 'texinfo'},
               'vis': {'visibility'}, 'cubemaps': {'cubemaps'}, 'overlays': {'overlays', 'textures', 'texinfo'}, 'ents': {'ents'},
               'bmodels': {'bmodels', 'ents'}, 'props': {'props'}, 'detail': {'detail_props'}, 'pak': {'pakfile'}}


def _closure(view):
    seen = set()
    todo = [view]
    while todo:
        v = todo.pop()
        if v in seen:
            continue
        seen.add(v)
        todo.extend(VIEW_DEPS.get(v, ()))
    return seen


def allowed_pre_access(views, groups):
    """A view may be looked at before the assignment only if neither it nor anything it references is replaced:
    objects parsed from the old lumps would otherwise be (legitimately) appended to the new lists by the writers."""
    replaced = set()
    for g in groups:
        replaced |= GROUP_VIEWS[g]
    return [v for v in views if not (_closure(v) & replaced)]


def _apply_overflow(b: BSP, kind: str, r: Rng):
    """Push one field outside its on-disk range.  Returns a description or None if not applicable."""
    if kind == 'node-mins' and b._parsed_lumps.get(B.BSP_LUMPS.NODES):
        b.nodes[0].mins = Vec(40000.0, 0.0, 0.0)
        return 'VisTree.mins.x=40000 (int16)'
    if kind == 'leaf-cluster' and b._parsed_lumps.get(B.BSP_LUMPS.LEAFS):
        b.visleafs[0].cluster_id = 70000
        return 'VisLeaf.cluster_id=70000 (int16)'
    if kind == 'leaf-area' and b._parsed_lumps.get(B.BSP_LUMPS.LEAFS):
        b.visleafs[0].area = 1 << 12
        return 'VisLeaf.area=4096 (9 bits)'
    if kind == 'face-lightmap' and b._parsed_lumps.get(B.BSP_LUMPS.FACES):
        b.faces[0].lightmap_size = (1 << 40, 1)
        return 'Face.lightmap_size=2**40 (int32)'
    if kind == 'overlay-faces' and b._parsed_lumps.get(B.BSP_LUMPS.OVERLAYS):
        b.overlays[0].faces = list(range(65))
        return 'Overlay.faces has 65 entries (max 64)'
    if kind == 'overlay-order' and b._parsed_lumps.get(B.BSP_LUMPS.OVERLAYS):
        object.__setattr__(b.overlays[0], 'render_order', 5)
        return 'Overlay.render_order=5 (2 bits)'
    if kind == 'texture-name' and b._parsed_lumps.get(B.BSP_LUMPS.TEXINFO):
        b.texinfo[0]._info.mat = 'm' * 200
        return 'material name of 200 characters (max 127)'
    if kind == 'prim-index' and b._parsed_lumps.get(B.BSP_LUMPS.PRIMITIVES):
        b.primitives[0].indexed_verts = [70000]
        return 'Primitive.indexed_verts=[70000] (uint16)'
    if kind == 'cubemap-size' and b._parsed_lumps.get(B.BSP_LUMPS.CUBEMAPS):
        b.cubemaps[0].size = 1 << 33
        return 'Cubemap.size=2**33 (int32)'
    if kind == 'plane-dist' and b._parsed_lumps.get(B.BSP_LUMPS.PLANES):
        b.planes[0].dist = 1e39
        return 'Plane.dist=1e39 (float32)'
    props = b._parsed_lumps.get(B.LMP_ID_STATIC_PROPS)
    if props:
        ver = b.static_prop_version
        vn = 7 if ver.is_lightmap else ver.version
        if kind == 'prop-skin':
            props[0].skin = 1 << 33
            return 'StaticProp.skin=2**33 (int32)'
        if kind == 'prop-tint' and vn >= 7 and not ver.is_sdk_2013:
            props[0].tint = Vec(300.0, 0.0, 0.0)
            return 'StaticProp.tint.x=300 (uint8)'
        if kind == 'prop-flags-secondary' and not (vn >= 10 or ver is B.StaticPropVersion.V_LIGHTMAP_MESA or ver.is_lightmap):
            props[0].flags = B.StaticPropFlags(0x100 | props[0].flags.value)
            return f'StaticProp.flags has a secondary-field bit but format {ver.name} has no secondary flags field'
        if kind == 'prop-dx' and vn in (6, 7):
            props[0].min_dx_level = 70000
            return 'StaticProp.min_dx_level=70000 (uint16)'
    det = b._parsed_lumps.get(B.LMP_ID_DETAIL_PROPS)
    if det and kind == 'detail-leaf':
        det[0].leaf = 70000
        return 'DetailProp.leaf=70000 (uint16)'
    return None


def run(case: dict) -> Outcome:
    out = Outcome()
    path = simfs.MOUNT + '/maps/gen.bsp'
    blob = G.make_skeleton(version=case['version'], l4d2=case['l4d2'])
    if case['compress'] or case['compress_game']:
        blob = G.repack(blob, compress=set(case['compress']), compress_game={b'prps'} if case['compress_game'] else ())
    fs = SimFS()
    fs.put(path, blob)
    r = Rng(case['value_seed'])
    groups = set(case['groups'])
    with fs:
        try:
            b = BSP(path)
            for v in allowed_pre_access(case['pre_access'], groups):
                getattr(b, v)
                out.stats['pre_accessed_views'] += 1
            notes = G.populate(b, r, groups)
        except Exception as exc:
            out.violate('populate-raised', type(exc).__name__, f'opening the minimal map / assigning generated values raised {exc!r} ({case["groups"]})')
            return out
        desc = None
        if case['overflow']:
            try:
                desc = _apply_overflow(b, case['overflow'], r)
            except Exception:
                desc = None
        want = G.observe_all(b)
        before = fs.get(path)
        try:
            b.save()
            saved = True
        except Exception as exc:
            saved = False
            err = exc
        if not saved:
            out.event('save-raised', type(err).__name__)
            if desc is None:
                out.violate('save-raised:' + _blame(err), f'{type(err).__name__}|v{case["version"]}',
                            f'save() of well-formed generated values raised {err!r}; groups {case["groups"]} notes {notes}')
            else:
                out.stats['overflow_rejected'] += 1
                if fs.get(path) != before:
                    out.violate('silent-truncation:dest-changed', case['overflow'], f'save() rejected {desc} with {err!r} but the file on disk changed')
                if [n for n in fs.listdir(simfs.MOUNT + '/maps') if n.startswith('tmp_')]:
                    out.violate('silent-truncation:temp-left', case['overflow'], f'save() rejected {desc} but left a temp file')
            out.nontrivial = len(groups) >= 2
            return out
        try:
            b2 = BSP(path)
            b2.static_prop_version = b.static_prop_version
            got = G.observe_all(b2)
        except Exception as exc:
            out.violate('reopen-raised', f'{type(exc).__name__}|v{case["version"]}', f'reopening the saved map raised {exc!r}; groups {case["groups"]}')
            return out
    out.steps = 1
    for name in G.CANONICAL_ORDER:
        w, g = want[name], got[name]
        if isinstance(g, str) and g.startswith('<error'):
            out.violate(f'view-roundtrip:{name}:unreadable', f'v{case["version"]}', f'view {name} cannot be read back: {g}; groups {case["groups"]}')
            continue
        d = diff(w, g, tol_default=0.0)
        if d is not None:
            fld = generic_path(d[0]).strip('/').replace('/', '.') or 'value'
            if desc is not None:
                out.violate(f'silent-truncation:{name}:{fld}', case['overflow'], f'{desc}: save() succeeded and {name} re-reads as {str(d[2])[:120]!r} instead of {str(d[1])[:120]!r}')
            else:
                out.violate(f'view-roundtrip:{name}:{fld}', f'v{case["version"]}|{notes.get("prop_version", "-")}',
                            f'{name}{d[0]}: assigned {str(d[1])[:200]!r}, re-read {str(d[2])[:200]!r}; groups {case["groups"]} pre-access {case["pre_access"]}')
    if desc is not None and not out.viol:
        out.stats['overflow_roundtripped'] += 1
    for g in groups:
        out.states.add(f'{g}|v{case["version"]}{"|l4d2" if case["l4d2"] else ""}{"|lzma" if case["compress"] else ""}')
    if 'prop_version' in notes:
        out.states.add('props:' + notes['prop_version'])
    refs = {'faces': {'tex', 'planes', 'edges', 'prims'}, 'tree': {'faces', 'brushes', 'planes'}, 'bmodels': {'tree', 'faces', 'ents'},
            'props': {'tree'}, 'overlays': {'tex'}, 'water': {'tex'}, 'brushes': {'tex', 'planes'}}
    if len(groups) >= 2 and any(g in refs for g in groups):
        out.nontrivial = True
    out.event(case['version'], case['l4d2'], sorted(groups), case['overflow'], desc, [len(str(want[n])) for n in G.CANONICAL_ORDER])
    out.sample = {'version': case['version'], 'l4d2': case['l4d2'], 'groups': case['groups'], 'pre_access': case['pre_access'],
                  'compress': case['compress'], 'overflow': case['overflow'], 'notes': notes,
                  'assigned_example': {k: str(v)[:200] for k, v in list(want.items())[:4]}}
    return out


def _blame(exc):
    import traceback
    tb = traceback.extract_tb(exc.__traceback__)
    for fr in reversed(tb):
        if fr.name.startswith('_lmp_write_') or fr.name.startswith('_write_'):
            return fr.name.replace('_lmp_write_', '')
    return tb[-1].name if tb else '?'


SHRINK_LISTS = ('groups', 'pre_access', 'compress')


def simplify(case: dict):
    if case['l4d2']:
        yield dict(case, l4d2=False)
    if case['compress_game']:
        yield dict(case, compress_game=False)
    if case['version'] != 21:
        yield dict(case, version=21)

"""C07 — VMF class/name indexes always agree with the entities in the map.

History machine over two VMF objects and a pool of entities: every mutation path of
classname/targetname (create_ent, Entity()+add_ent, add_ents, remove_ent, Entity.remove,
re-adding, [] / del / update / pop / clear / setdefault in any letter case, make_unique,
copy within and across maps, export+parse) interleaved with *reader tasks* (E4): live
iterators over by_class[k], by_target[k], search(x) and iter_ents() whose next() steps the
scheduler interleaves with the mutations.  The reference model is a scan of vmf.entities
(+ spawn), evaluated after every step."""
from __future__ import annotations

from sim.core import Outcome, Rng

from srctools.vmf import VMF, Entity
from srctools.keyvalues import Keyvalues

PROP = 'C07'
LEVEL = 'exploration'
RUNS = {'quick': 40000, 'thorough': 3000000}
BATCH = {'quick': 500, 'thorough': 5000}
BUDGET_S = {'quick': 60.0, 'thorough': 1500.0}
RULE = ('one run = one seeded history (5-45 steps) of index-affecting operations over <=10 entities in two maps, with a '
        'random subset of operation kinds disabled per run (swarm), letter-case variants of keys and values '
        '(incl. casefold-only equalities such as Straße/STRASSE), and reader tasks holding live iterators across '
        'mutations. The invariant is evaluated after every step on both maps. Non-trivial: >=1 index-affecting '
        'mutation after the first lookup, or an iterator alive across a mutation. distinct = distinct event-log digest.')
STATE_MEASURE = 'distinct (operation kind, key, old-value case class, new-value case class, in-map?) transitions executed, plus op-kind bigrams'
REAL_VS_STUB = {
    'real': ['srctools.vmf.VMF / Entity / CopySet / _remove_copyset', 'VMF.export + Keyvalues.parse + VMF.parse for the parse step'],
    'stub': ['callers: a mutator task and reader tasks stepped by the seeded scheduler'],
}
ASSUMPTIONS = ['"matches case-insensitively" is judged in its weakest reading: members of by_x[k] must currently match k '
               'case-insensitively and every entity must be found under some key equal to its folded value; whether keys '
               'are stored folded is not judged', 'empty CopySets left by defaultdict lookups are not stale entries',
               'Entity.__hash__ is replaced by a creation serial for replayability (equality stays identity)']

CLASSES = ['func_door', 'Func_Door', 'FUNC_DOOR', 'info_target', 'prop_static', 'Info_Target', 'straße_ent', 'STRASSE_ENT', '']
NAMES = ['door', 'Door', 'DOOR', '', 'door1', 'Door2', 'relay', 'x*', 'Straße', 'STRASSE', 'info_target']
KEYSPELL = {'classname': ['classname', 'ClassName', 'CLASSNAME'], 'targetname': ['targetname', 'TargetName', 'TARGETNAME'],
            'other': ['origin', 'Angles', 'nodeid']}
MUT_OPS = ['create', 'new_add', 'add_ents', 'remove', 'readd', 'set', 'del', 'update', 'pop', 'clear', 'setdefault',
           'make_unique', 'copy', 'parse', 'respawn']


def _case_class(v):
    if v is None:
        return 'none'
    if v == '':
        return 'empty'
    if v == v.casefold():
        return 'folded'
    return 'mixed'


def gen(rng: Rng, tier: str, index: int) -> dict:
    r = rng.child('hist')
    enabled = [op for op in MUT_OPS if r.chance(0.75)] or ['create', 'set']
    if 'create' not in enabled and 'new_add' not in enabled:
        enabled.append('create')
    n = r.randrange(5, 20) if r.chance(0.7) else r.randrange(20, 45)
    steps = [['create', 0, r.randrange(len(CLASSES) - 1), r.randrange(len(NAMES))]]
    for _ in range(n):
        x = r.random()
        if x < 0.62:
            op = r.pick(enabled)
            m = 0 if r.chance(0.8) else 1
            e = r.randrange(10)
            if op in ('create', 'new_add'):
                steps.append([op, m, r.randrange(len(CLASSES)), r.randrange(len(NAMES))])
            elif op == 'add_ents':
                steps.append([op, m, [[r.randrange(len(CLASSES) - 1), r.randrange(len(NAMES))] for _ in range(r.randrange(1, 4))]])
            elif op == 'remove':
                steps.append([op, e, r.pick(['vmf', 'ent'])])
            elif op == 'readd':
                steps.append([op, e])
            elif op in ('set', 'setdefault'):
                k = r.pick(['classname', 'targetname', 'targetname', 'other'])
                spell = r.pick(KEYSPELL[k])
                val = r.pick(CLASSES[:-1]) if k == 'classname' else (r.pick(NAMES) if k == 'targetname' else str(r.randrange(5)))
                steps.append([op, e, spell, val])
            elif op in ('del', 'pop'):
                k = r.pick(['targetname', 'targetname', 'other', 'classname'])
                steps.append([op, e, r.pick(KEYSPELL[k])])
            elif op == 'update':
                d = {}
                if r.chance(0.6):
                    d[r.pick(KEYSPELL['targetname'])] = r.pick(NAMES)
                if r.chance(0.5):
                    d[r.pick(KEYSPELL['classname'])] = r.pick(CLASSES[:-1])
                steps.append([op, e, d])
            elif op == 'clear':
                steps.append([op, e])
            elif op == 'make_unique':
                steps.append([op, e, r.pick(['', 'auto', 'Door'])])
            elif op == 'copy':
                steps.append([op, e, r.randrange(2), r.chance(0.8)])
            elif op == 'parse':
                steps.append([op, m])
            elif op == 'respawn':
                steps.append([op, m, r.pick(['func_door', 'WorldSpawn', 'worldspawn', ''])])
        elif x < 0.8:
            kind = r.pick(['by_class', 'by_target', 'search', 'iter_ents'])
            if kind == 'by_class':
                key = r.pick(CLASSES[:-1])
            elif kind == 'by_target':
                key = r.pick(NAMES)
            elif kind == 'search':
                key = r.pick(NAMES + ['door*', 'D*', '*', 'func_door', 'FUNC_DOOR'])
            else:
                key = r.pick(CLASSES[:-1])
            steps.append(['iter_start', 0 if r.chance(0.85) else 1, kind, key])
        elif x < 0.95:
            steps.append(['iter_next', r.randrange(6), r.randrange(1, 4)])
        else:
            steps.append(['iter_drain', r.randrange(6)])
    steps.append(['iter_drain_all'])
    return {'steps': steps}


# ------------------------------------------------------------------ reference model
def _members(vmf):
    seen = []
    for e in list(vmf.entities) + [vmf.spawn]:
        if not any(e is x for x in seen):
            seen.append(e)
    return seen


def _ref_match(vmf, kind, key):
    """Entities of the map that a lookup of `kind` with `key` must return (reference scan)."""
    M = _members(vmf)
    kf = key.casefold()
    if kind == 'by_class':
        return [e for e in M if e['classname'].casefold() == kf]
    if kind == 'by_target':
        return [e for e in M if e['targetname'].casefold() == kf] if key else [e for e in M if not e['targetname']]
    if kind == 'iter_ents':
        return [e for e in vmf.entities if 'classname' in e and e['classname'] == key]
    # search
    if not key:
        return []
    if kf.endswith('*'):
        pre = kf[:-1]
        return [e for e in M if e['targetname'] and e['targetname'].casefold().startswith(pre)]
    return [e for e in M if (e['targetname'] and e['targetname'].casefold() == kf) or e['classname'].casefold() == kf]


def _check_indexes(out: Outcome, vmf, mi, last_ops, si, st):
    M = _members(vmf)
    for which, attr, keyname in (('by_class', vmf.by_class, 'classname'), ('by_target', vmf.by_target, 'targetname')):
        found = {id(e): False for e in M}
        for k, cs in list(attr.items()):
            for e in set.__iter__(cs):
                if not any(e is x for x in M):
                    out.violate(f'{which}-stale', _culprit(last_ops, e, 'not-in-map'),
                                f'step {si} {st}: map {mi} {which}[{k!r}] holds an entity that is not in the map ({e[keyname]!r}); last op on it {last_ops.get(id(e))}')
                    continue
                cur = e[keyname]
                kf = (k or '').casefold()
                if cur.casefold() != kf:
                    out.violate(f'{which}-stale', _culprit(last_ops, e, 'key-mismatch'),
                                f'step {si} {st}: map {mi} {which}[{k!r}] holds an entity whose {keyname} is now {cur!r}; last op {last_ops.get(id(e))}')
                else:
                    found[id(e)] = True
        for e in M:
            if not found[id(e)]:
                out.violate(f'{which}-missing', _culprit(last_ops, e, 'absent'),
                            f'step {si} {st}: map {mi}: entity with {keyname}={e[keyname]!r} is in the map but under no matching {which} key; last op {last_ops.get(id(e))}')
    # worldspawn
    sp = vmf.spawn
    if sp['classname'].casefold() != 'worldspawn':
        out.violate('worldspawn', 'reclassed', f'step {si} {st}: worldspawn classname is {sp["classname"]!r}')
    ws = vmf.by_class.get('worldspawn')
    if ws is None or not any(e is sp for e in set.__iter__(ws)):
        out.violate('worldspawn', 'not-indexed', f'step {si} {st}: spawn entity is not in by_class["worldspawn"]')


def _culprit(last_ops, e, what):
    lo = last_ops.get(id(e))
    if lo is None:
        return f'{what}|untracked'
    return f'{what}|{lo}'


def _check_search(out: Outcome, vmf, mi, si, st, keys):
    for x in keys:
        try:
            got = list(vmf.search(x))
        except Exception as exc:
            out.violate('search-mismatch', f'raised|{type(exc).__name__}', f'search({x!r}) raised {exc!r}')
            continue
        want = _ref_match(vmf, 'search', x)
        gi = {id(e) for e in got}
        wi = {id(e) for e in want}
        if gi != wi:
            kind = 'extra' if gi - wi and not wi - gi else ('missing' if wi - gi and not gi - wi else 'both')
            out.violate('search-mismatch', f'{kind}|{"star" if x.endswith("*") else "exact"}',
                        f'step {si} {st}: map {mi} search({x!r}) returned {[(e["classname"], e["targetname"]) for e in got]}, '
                        f'scan gives {[(e["classname"], e["targetname"]) for e in want]}')


class _Reader:
    def __init__(self, vmf, mi, kind, key):
        self.vmf, self.mi, self.kind, self.key = vmf, mi, kind, key
        if kind == 'by_class':
            self.it = iter(vmf.by_class[key.casefold()])
        elif kind == 'by_target':
            self.it = iter(vmf.by_target[key.casefold() or None])
        elif kind == 'search':
            self.it = vmf.search(key)
        else:
            self.it = vmf.iter_ents(classname=key)
        self.always = {id(e): e for e in _ref_match(vmf, kind, key)}
        self.yielded = []
        self.done = False
        self.mutations_seen = 0

    def observe_mutation(self, touched):
        """Called after every mutation step: keep only entities that are still members and were not
        themselves the subject of the mutation (re-filing an entity is a removal plus an addition, and
        entities added or removed during iteration "may or may not appear")."""
        if self.done:
            return
        self.mutations_seen += 1
        now = {id(e) for e in _ref_match(self.vmf, self.kind, self.key)}
        for k in list(self.always):
            if k not in now or k in touched:
                del self.always[k]


def run(case: dict) -> Outcome:
    out = Outcome()
    maps = [VMF(), VMF()]
    pool = []          # every entity ever created (kept alive by the harness)
    removed = set()
    last_ops = {}
    readers = []
    lookups_done = False
    prev_op = None

    def ent(i):
        return pool[i % len(pool)] if pool else None

    touched = set()

    def touch(e, op, key=None, old=None, new=None, inmap=None):
        touched.add(id(e))
        lab = f'{op}|{key or "-"}|{_case_class(old)}>{_case_class(new)}'
        last_ops[id(e)] = lab
        out.states.add(lab + ('|in' if inmap else '|out'))

    for si, st in enumerate(case['steps']):
        op = st[0]
        out.steps += 1
        mutated = False
        touched.clear()
        try:
            if op in ('create', 'new_add'):
                _, mi, ci, ni = st
                vmf = maps[mi]
                cls, name = CLASSES[ci % len(CLASSES)], NAMES[ni % len(NAMES)]
                kv = {'classname': cls or 'info_null'} if op == 'create' else ({'classname': cls} if cls else {})
                if name or ni % 3 == 0:
                    kv['targetname'] = name
                if op == 'create':
                    c = kv.pop('classname')
                    e = vmf.create_ent(c, **kv)
                else:
                    e = Entity(vmf, keys=kv)
                    vmf.add_ent(e)
                pool.append(e)
                touch(e, 'create_ent' if op == 'create' else 'add_ent', None, None, name, True)
                mutated = True
            elif op == 'add_ents':
                _, mi, specs = st
                vmf = maps[mi]
                es = []
                for ci, ni in specs:
                    kv = {'classname': CLASSES[ci % (len(CLASSES) - 1)]}
                    if NAMES[ni % len(NAMES)]:
                        kv['targetname'] = NAMES[ni % len(NAMES)]
                    es.append(Entity(vmf, keys=kv))
                vmf.add_ents(iter(es))
                for e in es:
                    pool.append(e)
                    touch(e, 'add_ents', None, None, e['targetname'], True)
                mutated = True
            elif op == 'remove':
                e = ent(st[1])
                if e is not None and not any(e is m.spawn for m in maps):
                    if st[2] == 'vmf':
                        e.map.remove_ent(e)
                    else:
                        e.remove()
                    removed.add(id(e))
                    touch(e, 'remove_ent', None, e['targetname'], None, False)
                    mutated = True
            elif op == 'readd':
                e = ent(st[1])
                if e is not None and id(e) in removed and not any(e is x for x in e.map.entities):
                    e.map.add_ent(e)
                    removed.discard(id(e))
                    touch(e, 're-add', None, None, e['targetname'], True)
                    mutated = True
            elif op in ('set', 'setdefault', 'del', 'pop', 'update', 'clear', 'make_unique'):
                e = ent(st[1])
                if e is None:
                    continue
                inmap = any(e is x for x in e.map.entities)
                oldn, oldc = e['targetname'], e['classname']
                if op == 'set':
                    e[st[2]] = st[3]
                elif op == 'setdefault':
                    e.setdefault(st[2], st[3])
                elif op == 'del':
                    try:
                        del e[st[2]]
                    except KeyError:
                        if st[2].casefold() != 'classname':
                            raise
                elif op == 'pop':
                    if st[2].casefold() != 'classname':
                        e.pop(st[2])
                    else:
                        try:
                            e.pop(st[2])
                        except KeyError:
                            pass
                elif op == 'update':
                    e.update(st[2])
                elif op == 'clear':
                    if not any(e is m.spawn for m in maps):
                        e.clear()
                elif op == 'make_unique':
                    e.make_unique(st[2])
                keyk = st[2].casefold() if op in ('set', 'setdefault', 'del', 'pop') else '*'
                if keyk == 'classname':
                    touch(e, op, 'classname', oldc, e['classname'], inmap)
                else:
                    touch(e, op, keyk if keyk in ('targetname', '*') else 'other', oldn, e['targetname'], inmap)
                mutated = True
            elif op == 'copy':
                e = ent(st[1])
                if e is None:
                    continue
                tgt = maps[st[2]]
                c = e.copy(vmf_file=tgt)
                pool.append(c)
                if st[3]:
                    tgt.add_ent(c)
                    touch(c, 'copy+add_ent', None, None, c['targetname'], True)
                else:
                    removed.add(id(c))
                    touch(c, 'copy', None, None, c['targetname'], False)
                mutated = True
            elif op == 'parse':
                mi = st[1]
                old = maps[mi]
                text = old.export(inc_version=False)
                new = VMF.parse(Keyvalues.parse(text))
                maps[mi] = new
                # entities of the old map stay in the pool (they still belong to the old map object)
                for e in new.entities:
                    pool.append(e)
                    touch(e, 'parse', None, None, e['targetname'], True)
                last_ops[id(new.spawn)] = 'parse|spawn'
                maps.append(old)     # keep checking the old object too: it is still alive
                if len(maps) > 6:
                    del maps[2]
                mutated = True
            elif op == 'respawn':
                vmf = maps[st[1]]
                try:
                    vmf.spawn['classname'] = st[2]
                    if st[2].casefold() != 'worldspawn':
                        out.violate('worldspawn', 'reclass-accepted', f'step {si}: spawn["classname"] = {st[2]!r} did not raise')
                except ValueError:
                    pass
                touch(vmf.spawn, 'respawn', 'classname', 'worldspawn', st[2], True)
                mutated = True
            elif op == 'iter_start':
                _, mi, kind, key = st
                readers.append(_Reader(maps[mi], mi, kind, key))
                lookups_done = True
            elif op in ('iter_next', 'iter_drain', 'iter_drain_all'):
                targets = readers if op == 'iter_drain_all' else ([readers[st[1] % len(readers)]] if readers else [])
                for rd in targets:
                    if rd.done:
                        continue
                    count = st[2] if op == 'iter_next' else 10 ** 6
                    for _ in range(count):
                        try:
                            e = next(rd.it)
                        except StopIteration:
                            rd.done = True
                            _finish_reader(out, rd, si)
                            break
                        except Exception as exc:
                            rd.done = True
                            out.violate('iter-error', f'{rd.kind}|{type(exc).__name__}', f'step {si}: iterator over {rd.kind}[{rd.key!r}] raised {exc!r} after {rd.mutations_seen} mutations')
                            break
                        if rd.kind != 'search' and any(e is y for y in rd.yielded):
                            out.violate('iter-duplicate', rd.kind, f'step {si}: iterator over {rd.kind}[{rd.key!r}] yielded an entity twice')
                        rd.yielded.append(e)
                    if rd.mutations_seen:
                        out.stats['iterators_alive_across_mutation'] += 1
                        out.nontrivial = True
        except Exception as exc:
            out.violate('op-raised', f'{op}|{type(exc).__name__}', f'step {si} {st} raised {exc!r}')
            out.event(si, st, 'raised', type(exc).__name__)
            break
        if mutated:
            for rd in readers:
                rd.observe_mutation(touched)
            if lookups_done:
                out.nontrivial = True
            if prev_op is not None:
                out.states.add(f'bigram:{prev_op}>{op}')
            prev_op = op
            out.stats['mutations'] += 1
        # ---- invariant after every step
        for mi, vmf in enumerate(maps):
            _check_indexes(out, vmf, mi, last_ops, si, st)
        if mutated or si == len(case['steps']) - 1:
            keys = ['door', 'DOOR', 'door*', 'Straße', 'func_door', 'x*', 'info_target', '*', '', 'STRASSE_ENT', 'straße*']
            _check_search(out, maps[0], 0, si, st, keys)
            lookups_done = True
        out.event(si, st[0], [(len(m.entities), sorted((k or '', len(v)) for k, v in m.by_target.items() if v),
                                sorted((k, len(v)) for k, v in m.by_class.items() if v)) for m in maps[:2]])
        if out.viol:
            break
    out.sample = {'steps': case['steps'][:30]}
    return out


def _finish_reader(out, rd, si):
    got = {id(e) for e in rd.yielded}
    lost = [e for k, e in rd.always.items() if k not in got]
    if lost:
        out.violate('iter-lost', rd.kind, f'step {si}: iterator over {rd.kind}[{rd.key!r}] finished without yielding '
                    f'{[(e["classname"], e["targetname"]) for e in lost]} which matched during its whole life')


def simplify(case: dict):
    steps = case['steps']
    for i, st in enumerate(steps):
        if st[0] in ('create', 'new_add') and (st[2] != 0 or st[3] != 0):
            yield dict(case, steps=steps[:i] + [[st[0], st[1], 0, 0]] + steps[i + 1:])
        if st[0] in ('create', 'new_add', 'parse', 'respawn') and st[1] != 0:
            ns = list(st)
            ns[1] = 0
            yield dict(case, steps=steps[:i] + [ns] + steps[i + 1:])
        if st[0] in ('remove', 'readd', 'set', 'del', 'pop', 'update', 'clear', 'setdefault', 'make_unique', 'copy') and st[1] != 0:
            ns = list(st)
            ns[1] = 0
            yield dict(case, steps=steps[:i] + [ns] + steps[i + 1:])

"""C03 — tokenizing is total and independent of how the input is chunked.

System under simulation: srctools.tokenizer.Tokenizer (pure-Python twin) and Keyvalues.parse
on top of it, fed through the E1 stream engine.  A run is one (text, options) pair and a list
of delivery schedules ("steps"); the reference model is the same tokenizer given the text as
one string (the statement itself makes that the specification: "identical whether the text is
supplied as one string, as lines, or split into arbitrary chunks").
"""
from __future__ import annotations

import itertools
import os
import traceback

from sim.core import Outcome, Rng, REPO
from sim import stepclock
from sim.stream import Delivery

from srctools import tokenizer as tokmod
from srctools import keyvalues as kvmod
from srctools.tokenizer import Tokenizer, Token, TokenSyntaxError
from srctools.keyvalues import Keyvalues, KeyValError

PROP = 'C03'
LEVEL = 'fault_enumeration'
RUNS = {'quick': 72125 + 40000, 'thorough': 346201 * 8 + 1500000}
BATCH = {'quick': 1500, 'thorough': 8000}
BUDGET_S = {'quick': 60.0, 'thorough': 1500.0}
RULE = ('one run = one (text, option set) pair delivered under a list of schedules (every-char chunks, every '
        'single cut for short texts, seeded multi-cuts with empty chunks, lines, file object with short raw '
        'reads, truncation, decode fault); exhaustive population = all texts over a 24-symbol syntax alphabet '
        'up to length 3 (quick) / 4 (thorough) x stratified option sets, then seeded random and structured '
        'texts. A run is non-trivial when at least one chunk boundary fell strictly inside a token/comment/'
        'error span (not between two tokens) or a fault (truncation, decode fault) fired; distinct = distinct '
        'event-log digest (text, options, schedules, observations).')
STATE_MEASURE = 'distinct (token kind or ERR, character class before the cut) contexts in which a chunk boundary fell'
REAL_VS_STUB = {
    'real': ['srctools.tokenizer.Tokenizer (Python twin)', 'srctools.keyvalues.Keyvalues.parse',
             'CPython io.TextIOWrapper / io.BufferedReader (file deliveries)'],
    'stub': ['producer of the text (chunk generator, raw byte source with scheduled short reads)'],
    'not_reached': ['srctools._tokenizer (Cython) — cannot be built offline'],
}
ASSUMPTIONS = [
    'Python twin of the tokenizer only; the Cython accelerator cannot be rebuilt in this sandbox',
    'reference = the same tokenizer on the single-string delivery (the statement defines equality to it)',
    'OSError raised by the producer is outside the statement and not injected',
    'text = sequence of Unicode scalar values (no lone surrogates)',
]

ALPHA = ['"', '\\', '/', '*', '{', '}', '[', ']', '(', ')', '#', ':', '+', '=', ',', '\r', '\n', '\t', ' ',
         'a', 'n', "'", '﻿', 'Z']
assert len(ALPHA) == 24
OPT_NAMES = ['string_bracket', 'string_parens', 'allow_escapes', 'allow_star_comments', 'preserve_comments',
             'colon_operator', 'plus_operator']
KV_OPT_NAMES = ['newline_keys', 'newline_values', 'allow_escapes', 'single_line', 'single_block']

stepclock.watch_module(tokmod)
stepclock.watch_module(kvmod)


class MyErr(TokenSyntaxError):
    """A caller-supplied error type: errors must be exactly this type."""


# ------------------------------------------------------------------ generation
def _exh_sizes(tier):
    maxlen = 3 if tier == 'quick' else 4
    slots = 5 if tier == 'quick' else 8
    ntexts = sum(24 ** k for k in range(maxlen + 1))
    return maxlen, slots, ntexts


def _text_of_index(i: int) -> str:
    length = 0
    while i >= 24 ** length:
        i -= 24 ** length
        length += 1
    chars = []
    for _ in range(length):
        chars.append(ALPHA[i % 24])
        i //= 24
    return ''.join(reversed(chars))


def _opts_from_bits(bits: int) -> dict:
    return {n: bool(bits >> k & 1) for k, n in enumerate(OPT_NAMES)}


DEFAULT_BITS = 0b0000110  # string_parens + allow_escapes

_SAMPLE_CACHE = []


def _sample_texts():
    if not _SAMPLE_CACHE:
        base = os.path.join(REPO, 'tests')
        picks = []
        for root, dirs, files in os.walk(base):
            dirs.sort()
            for fn in sorted(files):
                if fn.lower().endswith(('.vmf', '.fgd', '.vmt', '.txt', '.vdf', '.vcd', '.smd', '.res')):
                    picks.append(os.path.join(root, fn))
        for p in picks[:60]:
            try:
                with open(p, encoding='utf8', errors='replace', newline='') as f:
                    _SAMPLE_CACHE.append(f.read(60000))
            except OSError:
                pass
        if not _SAMPLE_CACHE:
            _SAMPLE_CACHE.append('"a" "b"\n')
    return _SAMPLE_CACHE


def _rand_char(r: Rng) -> str:
    x = r.random()
    if x < 0.75:
        return r.pick(ALPHA)
    if x < 0.85:
        return chr(r.randrange(0x20, 0x7f))
    if x < 0.92:
        return chr(r.randrange(0, 0x20))
    while True:
        c = r.randrange(0x80, 0x110000)
        if not 0xD800 <= c <= 0xDFFF:
            return chr(c)


def _gen_doc(r: Rng) -> str:
    """A KeyValues/FGD-ish document from a small grammar (independent of the serialiser)."""
    out = []
    depth = 0
    nl = r.pick(['\n', '\r\n', '\n', '\r'])
    for _ in range(r.randrange(1, 14)):
        ind = '\t' * depth if r.chance(0.7) else ' ' * r.randrange(0, 3)
        k = r.random()
        word = ''.join(r.pick('abcXYZ_09$%.-!') for _ in range(r.randrange(1, 6)))
        val = ''.join(r.pick(['a', ' ', '\\n', '\\t', '\\"', '\\\\', "'", '/', '*', '{', '[', ']', '(', ':', '+', '\\', 'é',
                              '\\' + nl]) for _ in range(r.randrange(0, 7)))
        if k < 0.35:
            out.append(f'{ind}"{word}" "{val}"')
        elif k < 0.45:
            out.append(f'{ind}{word} {word}x')
        elif k < 0.6 and depth < 4:
            out.append(f'{ind}"{word}"{nl}{ind}{{')
            depth += 1
        elif k < 0.7 and depth > 0:
            depth -= 1
            out.append('\t' * depth + '}')
        elif k < 0.76:
            out.append(f'{ind}// {val}')
        elif k < 0.82:
            out.append(f'{ind}/* {val} *{r.pick(["", "*", " "])}*/')
        elif k < 0.88:
            out.append(f'{ind}"{word}" "{val}" [{r.pick(["x", "!x", "y", "$WIN32", ""])}]')
        elif k < 0.92:
            out.append(f'{ind}#{word} "{val}"')
        elif k < 0.96:
            out.append(f'{ind}{word}({val}) : "{word}" + "{val}" = [ {word}, 1: "x" ]')
        else:
            out.append(f'{ind}"{word}" [{r.pick(["x", "y"])}]{nl}{ind}{{{nl}{ind}}}')
    while depth > 0 and r.chance(0.8):
        depth -= 1
        out.append('\t' * depth + '}')
    return nl.join(out) + (nl if r.chance(0.7) else '')


def _mutate(r: Rng, text: str) -> str:
    chars = list(text)
    for _ in range(r.randrange(0, 4)):
        if not chars:
            break
        k = r.random()
        p = r.randrange(len(chars))
        if k < 0.4:
            del chars[p]
        elif k < 0.8:
            chars.insert(p, _rand_char(r))
        else:
            q = r.randrange(len(chars))
            chars[p], chars[q] = chars[q], chars[p]
    return ''.join(chars)


def _rand_schedules(r: Rng, text: str, kind: str) -> list:
    n = len(text)
    steps = [{'mode': 'chunks', 'cuts': list(range(1, n))}]  # per-char delivery; also yields token spans
    if n <= 12:
        for c in range(1, n):
            steps.append({'mode': 'chunks', 'cuts': [c]})
    k = r.randrange(2, 6)
    for _ in range(k):
        kindk = r.random()
        if kindk < 0.45 and n > 1:
            m = r.randrange(1, min(12, n))
            cuts = sorted(r.sample(range(1, n), min(m, n - 1)))
            empt = [r.randrange(0, len(cuts) + 2) for _ in range(r.randrange(0, 3))] if r.chance(0.4) else []
            steps.append({'mode': 'chunks', 'cuts': cuts, 'empties': empt})
        elif kindk < 0.55 and n > 1:
            size = r.pick([2, 3, 5, 7])
            steps.append({'mode': 'chunks', 'cuts': list(range(size, n, size))})
        elif kindk < 0.65:
            steps.append({'mode': 'lines'})
        elif kindk < 0.82:
            steps.append({'mode': 'file', 'newline': r.pick(['', '', None, '\n', '\r\n', '\r']),
                          'read_sizes': [r.randrange(1, 9) for _ in range(r.randrange(1, 5))] if r.chance(0.8) else [],
                          'encoding': r.pick(['utf-8', 'utf-8', 'utf-16-le', 'utf-32-be']),
                          'named': r.chance(0.5)})
        elif kindk < 0.92 and n > 0:
            t = r.randrange(0, n)
            cuts = sorted(r.sample(range(1, max(2, t)), min(2, max(0, t - 1)))) if t > 2 else []
            steps.append({'mode': 'chunks', 'cuts': cuts, 'truncate': t})
        else:
            cuts = sorted(r.sample(range(1, n), min(r.randrange(1, 5), n - 1))) if n > 1 else []
            if r.chance(0.7):
                steps.append({'mode': 'chunks', 'cuts': cuts, 'decode_fault': r.randrange(0, len(cuts) + 2)})
            else:
                steps.append({'mode': 'file', 'newline': '', 'read_sizes': [r.randrange(1, 6)],
                              'encoding': 'utf-8', 'decode_fault': r.randrange(0, len(text.encode('utf-8')) + 1)})
    return steps


def gen(rng: Rng, tier: str, index: int) -> dict:
    maxlen, slots, ntexts = _exh_sizes(tier)
    if index < ntexts * slots:
        ti, slot = divmod(index, slots)
        text = _text_of_index(ti)
        if slot == 0:
            bits = DEFAULT_BITS
        elif slot == 1:
            bits = 0b1111111 ^ DEFAULT_BITS ^ 0  # mostly-on complement family
        else:
            bits = rng.child('opts').randrange(128)
        n = len(text)
        steps = [{'mode': 'chunks', 'cuts': list(range(1, n))}]
        steps += [{'mode': 'chunks', 'cuts': [c]} for c in range(1, n)]
        if slot == 0 and n:
            steps += [{'mode': 'chunks', 'cuts': [c], 'empties': [0, 1, 2]} for c in range(1, n)][:2]
            steps.append({'mode': 'file', 'newline': '', 'read_sizes': [1], 'encoding': 'utf-8'})
        kind = 'kv' if slot == 2 else 'tok'
        if kind == 'kv':
            kb = rng.child('kvopts').randrange(32)
            opts = {nm: bool(kb >> k & 1) for k, nm in enumerate(KV_OPT_NAMES)}
        else:
            opts = _opts_from_bits(bits)
        return {'pop': 'exh', 'kind': kind, 'text': text, 'opts': opts, 'steps': steps, 'err': 'default'}
    r = rng.child('text')
    x = r.random()
    if x < 0.03:
        # long repetitive inputs: a linear-time, non-recursive tokenizer must cope with thousands of adjacent tokens/comments
        unit = r.pick(['/**/', '/* */ ', '/*x*/\t', '//\n', '// c\r\n', '"a" ', '{', '}', '[x]', '(y)', '#d ', ' ', '\r\n', '\n', 'w ', '""', ',', '=', ':', '+',
                       '"\\n"', '/*\n*/'])
        n = r.pick([300, 600, 1100, 2500])
        text = unit * n + r.pick(['', '"', '/*', 'x', '"a'])
        ro = rng.child('opts')
        bits = ro.randrange(128) | (0b0001000 if '/*' in unit else 0)
        kind = 'tok' if ro.chance(0.8) else 'kv'
        if kind == 'kv':
            kb = ro.randrange(32)
            opts = {nm: bool(kb >> k & 1) for k, nm in enumerate(KV_OPT_NAMES)}
        else:
            opts = _opts_from_bits(bits)
        return {'pop': 'repeat', 'kind': kind, 'text': text, 'opts': opts,
                'steps': [{'mode': 'chunks', 'cuts': list(range(4096, len(text), 4096))}], 'err': 'default'}
    if x < 0.4:
        n = r.randrange(0, 40) if r.chance(0.8) else r.randrange(40, 400)
        text = ''.join(_rand_char(r) for _ in range(n))
        pop = 'rand'
    elif x < 0.8:
        text = _mutate(r, _gen_doc(r))[:400]
        pop = 'doc'
    else:
        src = r.pick(_sample_texts())
        off = r.randrange(0, max(1, len(src) - 50))
        text = _mutate(r, src[off:off + r.randrange(10, 400)])
        pop = 'sample'
    ro = rng.child('opts')
    kind = 'kv' if ro.chance(0.35) else 'tok'
    if kind == 'kv':
        kb = ro.randrange(32) if ro.chance(0.7) else 0b00110
        opts = {nm: bool(kb >> k & 1) for k, nm in enumerate(KV_OPT_NAMES)}
    else:
        bits = ro.randrange(128) if ro.chance(0.8) else DEFAULT_BITS
        opts = _opts_from_bits(bits)
    steps = _rand_schedules(rng.child('sched'), text, kind)
    case = {'pop': pop, 'kind': kind, 'text': text, 'opts': opts, 'steps': steps,
            'err': ro.pick(['default', 'default', 'custom'])}
    if kind == 'kv':
        # alternative entry point: the caller hands Keyvalues.parse a tokenizer it built itself, with or without a file name
        case['via_tok'] = rng.child('entry').pick([None, None, 'named', 'unnamed'])
    return case


# ------------------------------------------------------------------ observation
def _where(exc) -> str:
    tb = traceback.extract_tb(exc.__traceback__)
    for fr in reversed(tb):
        if 'srctools' in fr.filename:
            return fr.name
    return tb[-1].name if tb else '?'


def _tree(kv):
    if kv.has_children():
        return [kv._real_name, kv.line_num, [_tree(c) for c in kv]]
    return [kv._real_name, kv.line_num, kv._value]


def observe(case, data, n, filename, counter=None):
    """Returns (observations, terminal).  terminal[0] in eof/err/exc/steps/too-many/eof-not-sticky."""
    obs = []
    kind = case['kind']
    budget = 400 * (n + 16)
    try:
        with stepclock.clock(budget) as clk:
            if kind == 'tok':
                err = MyErr if case.get('err') == 'custom' else TokenSyntaxError
                tok = Tokenizer(data, filename, err, **case['opts'])
                while True:
                    t, v = tok()
                    if counter is not None:
                        counter.append(counter_src())
                    if t is Token.EOF:
                        for _ in range(3):
                            t2 = tok()
                            if t2[0] is not Token.EOF or t2[1] != '':
                                return obs, ['eof-not-sticky', repr(t2)]
                        return obs, ['eof', v, tok.line_num]
                    obs.append([t.name, v, tok.line_num])
                    if len(obs) > n + 1:
                        return obs, ['too-many', len(obs)]
            else:
                flags = {'x': True, 'y': False}
                fname = filename if filename is not None else ''
                if case.get('via_tok'):
                    data = Tokenizer(data, 'prebuilt', TokenSyntaxError, string_bracket=True, allow_escapes=case['opts'].get('allow_escapes', True))
                    if case['via_tok'] == 'unnamed':
                        fname = ''
                res = Keyvalues.parse(data, fname, flags=flags, **case['opts'])
                return obs, ['tree', _tree(res) if res._real_name is not None else ['<root>', [_tree(c) for c in res]]]
    except TokenSyntaxError as e:
        want = KeyValError if kind == 'kv' else (MyErr if case.get('err') == 'custom' else TokenSyntaxError)
        return obs, ['err', type(e) is want, type(e).__name__, e.mess, e.line_num, None if e.file is None else str(e.file)]
    except stepclock.StepBudgetExceeded as e:
        return obs, ['steps', str(e)]
    except Exception as e:  # anything else violates totality
        return obs, ['exc', type(e).__name__, _where(e), str(e)[:200]]
    finally:
        pass


counter_src = None


def _char_class(c: str) -> str:
    return {'\\': 'bslash', '\r': 'CR', '\n': 'LF', '/': 'slash', '*': 'star', '"': 'quote', '#': 'hash',
            '[': 'brack', '(': 'paren', ' ': 'ws', '\t': 'ws'}.get(c, 'other')


def _spans(case, text):
    """Token end offsets from a one-character-per-chunk delivery (tok kind only)."""
    delivered = [0]

    def gen():
        for ch in text:
            delivered[0] += 1
            yield ch
    ends = []
    global counter_src
    counter_src = lambda: delivered[0]
    try:
        obs, term = observe(case, gen(), len(text), 'f', counter=ends)
    finally:
        counter_src = None
    return obs, term, ends


def _context(text, ends, obs, term, cut):
    """Label of the span the cut falls strictly inside, or None if it is between two tokens."""
    prev = 0
    for k, e in enumerate(ends):
        if prev < cut < e:
            name = obs[k][0] if k < len(obs) else ('EOF' if term[0] == 'eof' else 'ERR')
            return f'{name}:{_char_class(text[cut - 1])}'
        if cut == e or cut == prev:
            return None
        prev = e
    if cut > prev:
        return f'{"ERR" if term[0] in ("err", "exc") else "TAIL"}:{_char_class(text[cut - 1])}'
    return None


# ------------------------------------------------------------------ run
def run(case: dict) -> Outcome:
    out = Outcome()
    text = case['text']
    kind = case['kind']
    refs = {}

    def reference(ref_text):
        if ref_text not in refs:
            refs[ref_text] = observe(case, ref_text, len(ref_text), 'f')
            o, t = refs[ref_text]
            judge_total(o, t, 'str', ref_text)
        return refs[ref_text]

    def judge_total(o, t, mode, txt):
        if t[0] == 'exc':
            out.violate('bad-exception', f'{kind}|{t[1]}|{t[2]}', f'{t[1]} from {t[2]}: {t[3]} on text {txt!r} opts {case["opts"]} ({mode})')
        elif t[0] == 'err' and not t[1]:
            out.violate('bad-exception', f'{kind}|wrong-error-type|{t[2]}', f'error type {t[2]} is not the configured error type; text {txt!r}')
        elif t[0] == 'steps':
            out.violate('too-many-steps', f'{kind}|line-events', f'{t[1]} text {txt!r} opts {case["opts"]} ({mode})')
        elif t[0] == 'too-many':
            out.violate('too-many-steps', f'{kind}|tokens', f'{t[1]} tokens for {len(txt)} characters: {txt!r}')
        elif t[0] == 'eof-not-sticky':
            out.violate('eof-not-sticky', kind, f'after EOF got {t[1]} on {txt!r}')

    ref_obs, ref_term = reference(text)
    out.event('ref', ref_obs, ref_term)
    spans = None
    if kind == 'tok':
        so, st, ends = _spans(case, text)
        spans = ends
        if (so, st) != (ref_obs, ref_term):
            _sched_violation(out, case, 'chunks', ref_obs, ref_term, so, st, text)
    out.stats['term_' + ref_term[0]] += 1

    for step in case['steps']:
        d = Delivery(text, step)
        mode = d.mode
        out.steps += 1
        out.stats['delivery_' + mode] += 1
        named = step.get('named', True)
        filename = 'f' if named else None
        src = d.source()
        o, t = observe(case, src, len(d.text) + 1, filename)
        out.event(step, o, t)
        judge_total(o, t, mode, d.text)
        if step.get('truncate') is not None:
            out.stats['fault_truncation'] += 1
            out.nontrivial = True
        if d.fault_at is not None:
            # decode fault: prefix of the fault-free stream, then the tokenizer's error, never a clean EOF
            fired = d.faulted or mode == 'file'
            if fired:
                out.stats['fault_decode_fired'] += 1
                out.nontrivial = True
                fo, ft = reference(d.ref_text)
                if kind == 'tok' and o != fo[:len(o)]:
                    out.violate('decode-fault-swallowed', f'{kind}|{mode}|prefix',
                                f'tokens before the decode fault {o[-3:]} are not a prefix of the fault-free stream {fo[:len(o)][-3:]}; text {d.text!r} step {step}')
                good = (t[0] == 'err' and t[1] and t[3] == 'Could not decode file!')
                # an ordinary syntax error found before the bad chunk is reached is also legitimate
                early = (t[0] == 'err' and t[1] and ft[0] == 'err' and t[3] == ft[3])
                if kind == 'kv' and t[0] == 'err' and t[1]:
                    early = True  # the parser may reject the prefix on its own grounds
                if kind == 'kv' and t[0] == 'tree' and case['opts'].get('single_block'):
                    early = True  # documented: single_block returns at the closing brace without reading on
                if not (good or early) and t[0] in ('eof', 'tree', 'err'):
                    out.violate('decode-fault-swallowed', f'{kind}|{mode}|{t[0]}',
                                f'decode fault ended as {t[:5]} instead of the tokenizer error; text {d.text!r} step {step}')
            continue
        fo, ft = reference(d.ref_text)
        if mode == 'file' and not named:
            # the file object supplies its own name; normalise it
            if t[0] == 'err' and t[5] == 'sim.txt':
                t = t[:5] + ['f']
            elif t[0] == 'err' and kind == 'kv' and t[5] in ('', None):
                t = t[:5] + ['f']
        if (o, _norm_term(t, kind, named)) != (fo, _norm_term(ft, kind, named)):
            _sched_violation(out, case, mode, fo, ft, o, t, d.text, step)
        # reach probes: in which syntactic context did the boundaries fall
        if spans is not None and mode in ('chunks', 'lines') and step.get('truncate') is None and d.pieces:
            pos = 0
            for p in d.pieces[:-1]:
                pos += len(p)
                if 0 < pos < len(text):
                    ctx = _context(text, spans, ref_obs, ref_term, pos)
                    if ctx is not None:
                        out.states.add(ctx)
                        out.nontrivial = True
            if any(p == '' for p in d.pieces):
                out.stats['empty_chunks'] += 1
        elif mode == 'file':
            out.stats['file_short_reads'] += getattr(d, 'raw', None).reads if hasattr(d, 'raw') else 0
            if len(d.text) > 1:
                out.nontrivial = True
    out.sample = {'kind': kind, 'text': text, 'opts': case['opts'], 'steps': case['steps'][:4],
                  'reference': [ref_obs[:6], ref_term]}
    return out


def _norm_term(t, kind, named):
    if t[0] == 'err' and not named:
        return t[:5]
    return t


def _sched_violation(out, case, mode, fo, ft, o, t, txt, step=None):
    field = 'error'
    if len(o) != len(fo):
        field = 'length'
    for a, b in zip(fo, o):
        if a != b:
            field = 'token' if a[0] != b[0] else ('value' if a[1] != b[1] else 'line')
            break
    else:
        if len(o) == len(fo) and ft != t:
            field = 'terminal:' + ft[0] + '->' + t[0]
    out.violate('schedule-dependent', f'{case["kind"]}|{mode}|{field}',
                f'text {txt!r} opts {case["opts"]} step {step}: single-string gives {fo[-4:]} {ft}; this delivery gives {o[-4:]} {t}')


# ------------------------------------------------------------------ shrinking helpers
def simplify(case: dict):
    text = case['text']
    # drop characters (shifting the cuts)
    for p in range(len(text)):
        c = dict(case)
        c['text'] = text[:p] + text[p + 1:]
        c['steps'] = [_shift(s, p) for s in case['steps']]
        yield c
    for k, v in case['opts'].items():
        if v:
            c = dict(case)
            c['opts'] = dict(case['opts'], **{k: False})
            yield c
    for i, s in enumerate(case['steps']):
        cuts = s.get('cuts') or []
        if len(cuts) > 1:
            for cut in cuts:
                c = dict(case)
                c['steps'] = case['steps'][:i] + [dict(s, cuts=[cut], empties=[])] + case['steps'][i + 1:]
                yield c
        if s.get('empties'):
            c = dict(case)
            c['steps'] = case['steps'][:i] + [dict(s, empties=[])] + case['steps'][i + 1:]
            yield c
    for i, ch in enumerate(text):
        if ch not in 'a \n' and ord(ch) > 0x7f:
            c = dict(case)
            c['text'] = text[:i] + 'a' + text[i + 1:]
            yield c


def _shift(s, p):
    s = dict(s)
    if 'cuts' in s:
        s['cuts'] = sorted({(c - 1 if c > p else c) for c in s['cuts'] if (c - 1 if c > p else c) > 0})
    if s.get('truncate') is not None and s['truncate'] > p:
        s['truncate'] -= 1
    return s

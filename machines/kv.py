"""C01 — KeyValues1 serialise/parse round trip preserves the whole tree, for every way the text
can reach the parser (str, list of chunks, generator of chunks, text file object with the
host's newline convention) and every serialise option.  The reference model is the tree."""
from __future__ import annotations

import io

from sim.core import Outcome, Rng
from sim.stream import Delivery
from sim import stepclock

from srctools import keyvalues as kvmod
from srctools import tokenizer as tokmod
from srctools.keyvalues import Keyvalues, KeyValError

PROP = 'C01'
LEVEL = 'exploration'
RUNS = {'quick': 30000, 'thorough': 1500000}
BATCH = {'quick': 400, 'thorough': 4000}
BUDGET_S = {'quick': 60.0, 'thorough': 1500.0}
RULE = ('one run = one seeded tree (depth<=5, width<=6, <=150 nodes; empty blocks, duplicate and case-variant names, '
        'empty strings; names/values over an alphabet biased to quote, backslash, braces, brackets, parens, slash, '
        'star, hash, controls, BOM, non-BMP and arbitrary Unicode scalars; no CR/LF in names) serialised under a '
        'seeded option set (indent, indent_braces, start_indent; to str or to a text file object in \\n / \\r\\n host '
        'newline mode) and parsed back under a list of delivery schedules (str, list, generator chunks, lines, file '
        'object with short raw reads). Non-trivial: tree has >=1 block and >=1 leaf and the text was delivered in '
        '>=2 pieces or through a file object. distinct = distinct event-log digest. The quantifier over trees is '
        'sampled by the seeded workload; the delivery/schedule dimension is what the simulation adds.')
STATE_MEASURE = 'distinct (character class straddled by a chunk boundary) pairs inside serialised text'
REAL_VS_STUB = {
    'real': ['Keyvalues.serialise/_serialise', 'Keyvalues.parse', 'Tokenizer (Python)', 'escape_text (Python)',
             'CPython TextIOWrapper (newline translation) for file output/input'],
    'stub': ['chunk producer / raw byte source / in-memory byte sink'],
}
ASSUMPTIONS = ['Python tokenizer twin only', 'names contain no CR/LF (excluded by the statement)',
               'trees are sampled, not enumerated']

stepclock.watch_module(tokmod)
stepclock.watch_module(kvmod)

SPECIAL = ['"', '\\', '{', '}', '[', ']', '(', ')', '/', '*', '#', '=', ',', ':', '+', "'", ' ', '\t', '\v', '\b', '\f',
           '\a', '\x00', '\x1b', '\x7f', '﻿', '\U0001F600', '\u2028', '\x85', 'n', 't', 'é']
WORDS = ['a', 'A', 'key', 'Key', 'KEY', 'name', '', 'x', 'targetname', 'straße', 'STRASSE']


def _rand_str(r: Rng, is_name: bool) -> str:
    k = r.random()
    if k < 0.25:
        return r.pick(WORDS)
    n = r.randrange(0, 7) if r.chance(0.85) else r.randrange(7, 40)
    out = []
    for _ in range(n):
        x = r.random()
        if x < 0.55:
            out.append(r.pick(SPECIAL))
        elif x < 0.75:
            out.append(chr(r.randrange(0x20, 0x7f)))
        elif x < 0.85:
            out.append(chr(r.randrange(0, 0x20)))
        elif x < 0.9 and not is_name:
            out.append(r.pick(['\n', '\r', '\r\n', '\\\n']))
        else:
            while True:
                c = r.randrange(0x80, 0x110000)
                if not 0xD800 <= c <= 0xDFFF:
                    out.append(chr(c))
                    break
    s = ''.join(out)
    if is_name:
        s = s.replace('\n', '').replace('\r', '')
    return s


def _gen_tree(r: Rng, depth: int, budget: list):
    """['name', 'value'] for a leaf, ['name', [children]] for a block."""
    name = _rand_str(r, True)
    if depth >= 5 or budget[0] <= 0 or r.chance(0.55 if depth else 0.15):
        budget[0] -= 1
        return [name, _rand_str(r, False)]
    budget[0] -= 1
    kids = []
    for _ in range(r.pick([0, 1, 1, 2, 2, 3, 4, 6])):
        if budget[0] <= 0:
            break
        kids.append(_gen_tree(r, depth + 1, budget))
    if kids and r.chance(0.25):
        # duplicate / case-variant sibling names
        src = r.pick(kids)
        kids.append([src[0].swapcase() if r.chance(0.5) else src[0], _rand_str(r, False)])
    return [name, kids]


def gen(rng: Rng, tier: str, index: int) -> dict:
    r = rng.child('tree')
    budget = [r.pick([4, 10, 25, 60, 150])]
    top = r.pick(['root', 'root', 'named', 'leaf'])
    if top == 'root':
        tree = [None, [_gen_tree(r, 1, budget) for _ in range(r.randrange(0, 5))]]
    elif top == 'named':
        t = _gen_tree(r, 0, budget)
        tree = t if isinstance(t[1], list) else [t[0], [t]]
    else:
        tree = [_rand_str(r, True), _rand_str(r, False)]
    o = rng.child('opts')
    ser = {'indent': o.pick(['\t', '  ', '', '    ', ' \t']), 'indent_braces': o.chance(0.5),
           'start_indent': o.pick(['', '', '\t', '  ']),
           'sink': o.pick(['str', 'str', 'file_lf', 'file_crlf'])}
    case = {'tree': tree, 'ser': ser, 'sched_seed': rng.child('sched').randrange(1 << 30), 'steps': None}
    e = rng.child('edits')
    if e.chance(0.35):
        # second generation: the tree object that was just serialised is edited through the API and serialised again
        case['edits'] = [[[e.randrange(6) for _ in range(e.randrange(0, 4))],
                          e.pick(['edit_name', 'edit_name', 'set_name', 'set_real_name', 'edit_value', 'set_value', 'append', 'copy']),
                          _rand_str(e, True), _rand_str(e, False)] for _ in range(e.randrange(1, 4))]
    return case


# ------------------------------------------------------------------ model helpers
def build(node) -> Keyvalues:
    name, val = node
    if name is None:
        return Keyvalues.root(*[build(c) for c in val])
    if isinstance(val, list):
        return Keyvalues(name, [build(c) for c in val])
    return Keyvalues(name, val)


def snapshot(kv: Keyvalues):
    if isinstance(kv._value, list):
        return [kv._real_name, [snapshot(c) for c in kv._value]]
    return [kv._real_name, kv._value]


def strip_ws_outside_quotes(text: str) -> str:
    """Independent of the library tokenizer: delete whitespace outside "…" (backslash pairs skipped inside)."""
    out = []
    i = 0
    inq = False
    while i < len(text):
        c = text[i]
        if inq:
            out.append(c)
            if c == '\\' and i + 1 < len(text):
                out.append(text[i + 1])
                i += 2
                continue
            if c == '"':
                inq = False
        else:
            if c == '"':
                inq = True
                out.append(c)
            elif c not in ' \t\r\n':
                out.append(c)
        i += 1
    return ''.join(out)


def _cls(c: str) -> str:
    if c == '"':
        return 'quote'
    if c == '\\':
        return 'backslash'
    if c in '{}':
        return 'brace'
    if c in '[]()':
        return 'bracket'
    if c in '\r\n':
        return 'newline'
    if c < ' ' or c == '\x7f':
        return 'control'
    if c > '\x7f':
        return 'unicode'
    return 'other'


def first_diff(want, got, path='top'):
    """Returns (kind, field, detail-char-class) or None."""
    wn, wv = want
    gn, gv = got
    kind = 'block' if isinstance(wv, list) else 'leaf'
    if wn != gn:
        return kind, 'name', _strdiff(wn, gn), f'{path}: name {wn!r} -> {gn!r}'
    if isinstance(wv, list) != isinstance(gv, list):
        return kind, 'shape', 'kind', f'{path}: {"block" if isinstance(wv, list) else "leaf"} became {"block" if isinstance(gv, list) else "leaf"}'
    if not isinstance(wv, list):
        if wv != gv:
            return kind, 'value', _strdiff(wv, gv), f'{path}/{wn!r}: value {wv!r} -> {gv!r}'
        return None
    for i, (a, b) in enumerate(zip(wv, gv)):
        d = first_diff(a, b, f'{path}/{wn!r}[{i}]')
        if d:
            return d
    if len(wv) != len(gv):
        return kind, 'shape', 'children', f'{path}/{wn!r}: {len(wv)} children -> {len(gv)}'
    return None


def _strdiff(a, b) -> str:
    if a is None or b is None:
        return 'none'
    for x, y in zip(a, b):
        if x != y:
            return _cls(x)
    return _cls(a[len(b)]) if len(a) > len(b) else 'extra'


def _culprit_chars(node) -> str:
    """Character classes present in block names (for parse-rejected fingerprints)."""
    res = set()

    def walk(n, is_block_name):
        name, val = n
        if name is not None and isinstance(val, list):
            for ch in name:
                c = _cls(ch)
                if c in ('quote', 'backslash'):
                    res.add('blockname-' + c)
        if isinstance(val, list):
            for ch_ in val:
                walk(ch_, False)
    walk(node, False)
    return '+'.join(sorted(res)) or 'none'


def _schedules(case, text):
    if case.get('steps') is not None:
        return case['steps']
    r = Rng(case['sched_seed'])
    n = len(text)
    steps = [{'mode': 'str'}]
    if n > 1:
        steps.append({'mode': 'chunks', 'cuts': list(range(1, n)), 'as_list': r.chance(0.5)})
        # cuts right after backslashes and quotes (inside escapes; between name and value)
        crit = [i + 1 for i, ch in enumerate(text[:-1]) if ch in '\\"\r'][:64]
        if crit:
            steps.append({'mode': 'chunks', 'cuts': crit, 'as_list': r.chance(0.5)})
            steps.append({'mode': 'chunks', 'cuts': [r.pick(crit)]})
        for _ in range(2):
            m = r.randrange(1, 10)
            cuts = sorted({r.randrange(1, n) for _ in range(m)})
            steps.append({'mode': 'chunks', 'cuts': cuts, 'as_list': r.chance(0.3),
                          'empties': [r.randrange(0, len(cuts) + 2)] if r.chance(0.3) else []})
    steps.append({'mode': 'lines', 'as_list': r.chance(0.5)})
    steps.append({'mode': 'file', 'newline': r.pick(['', None, '\n']) if '\r' not in text else '',
                  'read_sizes': [r.randrange(1, 12) for _ in range(r.randrange(1, 4))], 'encoding': 'utf-8',
                  'named': r.chance(0.5)})
    return steps


def run(case: dict) -> Outcome:
    out = Outcome()
    tree = case['tree']
    ser = case['ser']
    kv = build(tree)
    before = snapshot(kv)
    opts = dict(indent=ser['indent'], indent_braces=ser['indent_braces'], start_indent=ser['start_indent'])
    try:
        with stepclock.clock(3000 * 200 + 10 ** 6):
            if ser['sink'] == 'str':
                text = kv.serialise(**opts)
            else:
                raw = io.BytesIO()
                f = io.TextIOWrapper(raw, encoding='utf-8', newline='\r\n' if ser['sink'] == 'file_crlf' else '\n',
                                     write_through=False)
                res = kv.serialise(f, **opts)
                f.flush()
                text = raw.getvalue().decode('utf-8')
                if res is not None:
                    out.violate('serialise-return', 'file', f'serialise(file) returned {type(res).__name__}')
    except Exception as e:
        out.violate('serialise-raised', type(e).__name__, f'serialise raised {e!r} for tree {tree!r}')
        return out
    if snapshot(kv) != before or before != _norm(tree):
        out.violate('tree-mutated', 'serialise', f'tree changed by serialise: {before!r} -> {snapshot(kv)!r}')
    out.event('text', text)
    # indentation independence (whitespace outside quotes only)
    try:
        base = kv.serialise(indent='\t', indent_braces=True, start_indent='')
        if strip_ws_outside_quotes(base) != strip_ws_outside_quotes(text):
            out.violate('indent-dependent', f'{ser["indent"]!r}|{ser["indent_braces"]}|{ser["start_indent"]!r}',
                        f'text differs beyond whitespace between default options and {ser}: {base!r} vs {text!r}')
    except Exception as e:
        out.violate('serialise-raised', type(e).__name__, f'serialise raised {e!r}')
    want = _norm(tree)
    if want[0] is not None:
        want = [None, [want]]
    nblocks, nleaves = _count(tree)
    for step in _schedules(case, text):
        d = Delivery(text, step)
        src = d.source()
        if step.get('as_list') and d.pieces is not None:
            src = list(d.pieces)
        out.steps += 1
        out.stats['delivery_' + d.mode] += 1
        try:
            with stepclock.clock(400 * (len(text) + 64)):
                got_kv = Keyvalues.parse(src, 'f' if step.get('named', True) else '', newline_keys=False,
                                         newline_values=True, allow_escapes=True)
            got = snapshot(got_kv)
        except KeyValError as e:
            out.event(step, 'rejected', e.mess)
            out.violate('parse-rejected', f'{_culprit_chars(tree)}',
                        f'parse rejected the serialised text ({e.mess!r} line {e.line_num}) step {step}; text {text!r}')
            continue
        except stepclock.StepBudgetExceeded as e:
            out.violate('parse-steps', d.mode, str(e))
            continue
        except Exception as e:
            out.violate('parse-raised', type(e).__name__, f'{e!r} text {text!r} step {step}')
            continue
        diff = first_diff(want, got)
        out.event(step, 'ok' if diff is None else diff)
        if diff is not None:
            out.violate('tree-mismatch', f'{diff[0]}|{diff[1]}|{diff[2]}', f'{diff[3]}; step {step}; text {text!r}')
        if d.mode != 'str' and nblocks and nleaves:
            out.nontrivial = True
        if d.pieces:
            pos = 0
            for p in d.pieces[:-1]:
                pos += len(p)
                if 0 < pos < len(text):
                    out.states.add(_cls(text[pos - 1]) + '>' + _cls(text[pos]))
    if case.get('edits') and not out.viol:
        _second_generation(out, case, kv, tree)
    out.sample = {'tree': tree, 'ser': ser, 'text': text[:600]}
    return out


def _second_generation(out: Outcome, case, kv: Keyvalues, tree):
    """Edit the already-serialised object through the API (mirroring every edit on the plain reference tree), serialise
    again, parse, compare: what was written the first time must not stick to the nodes."""
    import copy as _copy
    ref = _copy.deepcopy(_norm(tree))
    for path, kind, new_name, new_val in case['edits']:
        node, rnode = kv, ref
        for ix in path:
            if not isinstance(rnode[1], list) or not rnode[1]:
                break
            k = ix % len(rnode[1])
            node, rnode = node._value[k], rnode[1][k]
        try:
            if kind == 'copy':
                kv = kv.copy()          # carry on with the copy of the whole tree; it must behave like the original
                out.stats['second_gen_copy'] += 1
                continue
            if kind in ('edit_name', 'set_name', 'set_real_name'):
                if rnode[0] is None:
                    continue            # the root has no name to change
                if kind == 'edit_name':
                    node.edit(name=new_name)
                elif kind == 'set_name':
                    node.name = new_name
                else:
                    node.real_name = new_name
                rnode[0] = new_name
            elif kind in ('edit_value', 'set_value'):
                if isinstance(rnode[1], list):
                    continue
                if kind == 'edit_value':
                    node.edit(value=new_val)
                else:
                    node.value = new_val
                rnode[1] = new_val
            elif kind == 'append':
                if not isinstance(rnode[1], list):
                    continue
                node.append(Keyvalues(new_name, new_val))
                rnode[1].append([new_name, new_val])
        except Exception as exc:
            out.event('edit-raised', kind, type(exc).__name__)
            return
        out.stats['second_gen_edits'] += 1
    try:
        text2 = kv.serialise()
        got = snapshot(Keyvalues.parse(text2, 'second', newline_keys=False, newline_values=True, allow_escapes=True))
    except Exception as exc:
        out.violate('parse-raised' if 'text2' in locals() else 'serialise-raised', f'second-generation|{type(exc).__name__}', f'after edits {case["edits"]}: {exc!r}')
        return
    want = ref if ref[0] is None else [None, [ref]]
    diff = first_diff(want, got)
    out.event('second-generation', 'ok' if diff is None else diff)
    if diff is not None:
        out.violate('tree-mismatch', f'second-generation|{diff[0]}|{diff[1]}', f'after serialise, API edits {case["edits"]} and a second serialise: {diff[3]}; text {text2!r}')


def _norm(node):
    name, val = node
    if isinstance(val, list):
        return [name, [_norm(c) for c in val]]
    return [name, val]


def _count(node):
    name, val = node
    if not isinstance(val, list):
        return 0, 1
    b, l = (1 if name is not None else 0), 0
    for c in val:
        x, y = _count(c)
        b += x
        l += y
    return b, l


SHRINK_LISTS = ()


def _subtrees(node, path=()):
    name, val = node
    if isinstance(val, list):
        for i, c in enumerate(val):
            yield path + (i,), c
            yield from _subtrees(c, path + (i,))


def _replace(node, path, new):
    """new=None deletes."""
    if not path:
        return new
    name, val = node
    i = path[0]
    kids = list(val)
    if len(path) == 1 and new is None:
        del kids[i]
    else:
        kids[i] = _replace(kids[i], path[1:], new)
    return [name, kids]


def simplify(case: dict):
    tree = case['tree']
    # hoist a subtree to the top / delete children
    for path, sub in _subtrees(tree):
        yield dict(case, tree=_replace(tree, path, None), steps=None)
    for path, sub in _subtrees(tree):
        if tree[0] is None and len(path) > 1:
            yield dict(case, tree=[None, [sub]], steps=None)
    # shorten strings
    def strings(node, path=()):
        name, val = node
        if name:
            yield path, 'name', name
        if isinstance(val, list):
            for i, c in enumerate(val):
                yield from strings(c, path + (i,))
        elif val:
            yield path, 'value', val
    def setstr(node, path, field, s):
        if not path:
            return [s, node[1]] if field == 'name' else [node[0], s]
        kids = list(node[1])
        kids[path[0]] = setstr(kids[path[0]], path[1:], field, s)
        return [node[0], kids]
    for path, field, s in strings(tree):
        if len(s) > 1:
            for p in range(len(s)):
                yield dict(case, tree=setstr(tree, path, field, s[:p] + s[p + 1:]), steps=None)
        elif field == 'value' or s != 'a':
            yield dict(case, tree=setstr(tree, path, field, '' if field == 'value' else 'a'), steps=None)
    if case['ser'] != {'indent': '\t', 'indent_braces': True, 'start_indent': '', 'sink': 'str'}:
        yield dict(case, ser={'indent': '\t', 'indent_braces': True, 'start_indent': '', 'sink': 'str'}, steps=None)
    if case.get('steps') is None:
        try:
            text = build(tree).serialise()
            for st in _schedules(case, text):
                yield dict(case, steps=[st])
        except Exception:
            pass

"""C18 — a constrained directory filesystem never reaches outside its root.

Weak fit for simulation (no schedule or fault dimension): the simulator contributes the
controlled disk and a *seam monitor* — every path that reaches the OS seam during a call is
recorded — and the search ranges over seeded path spellings, root spellings, working
directories and chain configurations.  It is claimed because the property's own observation
point is the OS seam."""
from __future__ import annotations

import posixpath

from sim.core import Outcome, Rng
from sim import simfs
from sim.simfs import SimFS

from srctools.filesys import RawFileSystem, FileSystemChain, RootEscapeError, File
from srctools import packlist

PROP = 'C18'
LEVEL = 'exploration'
RUNS = {'quick': 60000, 'thorough': 4000000}
BATCH = {'quick': 1000, 'thorough': 10000}
BUDGET_S = {'quick': 50.0, 'thorough': 1200.0}
RULE = ('one run = one simulated disk layout (root with nested files; sibling directories whose names extend the root\'s '
        'name; files in ancestors), one root spelling (trailing separator, relative, with ".." segments), one working '
        'directory, optionally a FileSystemChain with a sub-folder prefix, and 6 seeded path strings built from "..", ".", '
        'both separators, absolute prefixes and names of files in each of those places, each tried with in / [] / '
        'open_bin / open_str / walk_folder / File.cache_key; plus packlist.unify_path on the same strings. Non-trivial: '
        'the path contains "..", an absolute prefix, or names a file outside the root. distinct = distinct event-log digest.')
STATE_MEASURE = 'distinct (path class, operation, outcome class) triples'
REAL_VS_STUB = {'real': ['srctools.filesys.RawFileSystem / FileSystemChain', 'os.path (abspath, join, isfile), os.walk', 'packlist.unify_path'],
                'stub': ['disk + seam monitor (sim/simfs.py)']}
ASSUMPTIONS = ['POSIX path semantics (the sandbox platform); "inside the root" is judged on the lexically normalised path the OS seam receives',
               'no symlinks exist on the simulated disk']

G = simfs.MOUNT + '/game'
ROOT = G + '/root'
INSIDE = {ROOT + '/a.txt': b'inside-a', ROOT + '/sub/b.txt': b'inside-b', ROOT + '/sub/deep/c.txt': b'inside-c', ROOT + '/Mixed/Case.TXT': b'inside-m'}
OUTSIDE = {G + '/root_evil/secret.txt': b'SECRET-sibling-prefix', G + '/rootx/y/secret2.txt': b'SECRET-rootx', G + '/secret3.txt': b'SECRET-parent',
           simfs.MOUNT + '/secret4.txt': b'SECRET-top', G + '/root.bak': b'SECRET-file-sibling', G + '/other/a.txt': b'SECRET-other'}
SEGS = ['..', '..', '.', '', 'a.txt', 'sub', 'b.txt', 'deep', 'c.txt', 'root', 'root_evil', 'secret.txt', 'rootx', 'y', 'secret2.txt', 'secret3.txt',
        'game', 'root.bak', 'other', 'simfs', 'secret4.txt', 'Mixed', 'Case.TXT', 'nope']
OPS = ['in', 'getitem', 'open_bin', 'open_str', 'walk', 'cache_key', 'read']


def _rand_path(r: Rng) -> str:
    k = r.random()
    if k < 0.15:
        tgt = r.pick(sorted(OUTSIDE))
        style = r.randrange(4)
        if style == 0:
            return tgt                                           # absolute
        if style == 1:
            return posixpath.relpath(tgt, ROOT)                   # ../root_evil/secret.txt
        if style == 2:
            return posixpath.relpath(tgt, ROOT).replace('/', '\\')
        return 'sub/../' + posixpath.relpath(tgt, ROOT)
    if k < 0.3:
        return r.pick([x[len(ROOT) + 1:] for x in INSIDE]) if r.chance(0.7) else r.pick(['', '.', 'sub', 'sub/', './a.txt', 'sub//b.txt'])
    n = r.randrange(1, 7)
    segs = [r.pick(SEGS) for _ in range(n)]
    sep = r.pick(['/', '/', '\\', 'mixed'])
    out = ''
    for i, s in enumerate(segs):
        if i:
            out += r.pick(['/', '\\']) if sep == 'mixed' else sep
        out += s
    if r.chance(0.15):
        out = r.pick(['/', '//', simfs.MOUNT + '/', G + '/', ROOT + '/', ROOT + '_evil/']) + out
    return out


def gen(rng: Rng, tier: str, index: int) -> dict:
    r = rng.child('cfg')
    return {
        'root': r.pick([ROOT, ROOT + '/', 'root', './root', G + '/rootx/../root', ROOT + '/sub/..', 'root/', G + '//root']),
        'cwd': r.pick([G, G, ROOT, simfs.MOUNT, ROOT + '/sub']),
        'chain': r.pick([None, None, '', 'sub', 'sub/deep', 'Mixed']),
        'steps': [[r.pick(OPS), _rand_path(r)] for _ in range(6)],
    }


def _inside(p: str) -> bool:
    return p == ROOT or p.startswith(ROOT + '/')


def _path_class(path: str) -> str:
    cls = []
    if path.startswith('/'):
        cls.append('absolute')
    if '..' in path.replace('\\', '/').split('/'):
        cls.append('dotdot')
    if '\\' in path:
        cls.append('backslash')
    if 'root_evil' in path or 'rootx' in path or 'root.bak' in path:
        cls.append('sibling-prefix')
    return '+'.join(cls) or 'plain'


def run(case: dict) -> Outcome:
    out = Outcome()
    fs = SimFS()
    for p, data in list(INSIDE.items()) + list(OUTSIDE.items()):
        fs.put(p, data)
    fs.cwd = case['cwd']
    secrets = set(OUTSIDE.values())
    root_arg = case['root']
    # a relative root only means ROOT when the cwd is its parent
    if not root_arg.startswith('/') and case['cwd'] != G:
        root_arg = ROOT
    touched = []
    fs.monitor = lambda kind, path: touched.append((kind, path))
    with fs:
        try:
            raw = RawFileSystem(root_arg, constrain_path=True)
        except Exception as exc:
            out.violate('op-raised', f'constructor|{type(exc).__name__}', f'RawFileSystem({root_arg!r}) raised {exc!r}')
            return out
        if posixpath.normpath(raw.path) != ROOT:
            out.event('root-resolved-elsewhere', raw.path)
            return out
        target = raw
        prefix = case['chain']
        if prefix is not None:
            target = FileSystemChain((raw, prefix))
        for op, path in case['steps']:
            out.steps += 1
            del touched[:]
            data = None
            exc = None
            try:
                if op == 'in':
                    res = path in target
                elif op == 'getitem':
                    f = target[path]
                    with f.open_bin() as fh:
                        data = fh.read()
                elif op == 'open_bin':
                    with target.open_bin(path) as fh:
                        data = fh.read()
                elif op == 'open_str':
                    with target.open_str(path) as fh:
                        data = fh.read().encode()
                elif op == 'walk':
                    files = list(target.walk_folder(path))
                    data = b''
                    for f in files[:40]:
                        with f.open_bin() as fh:
                            data += fh.read() + b'|'
                elif op == 'cache_key':
                    File(raw, path, path).cache_key()
                elif op == 'read':
                    target.read_kv1(path) if hasattr(target, 'read_kv1') else None
            except RootEscapeError as e:
                exc = e
            except (FileNotFoundError, IsADirectoryError, NotADirectoryError, PermissionError) as e:
                exc = e
            except Exception as e:
                exc = e
                if type(e).__name__ not in ('KeyValError', 'TokenSyntaxError', 'UnicodeDecodeError'):
                    out.violate('wrong-exception', f'{op}|{type(e).__name__}', f'{op}({path!r}) on root {case["root"]!r} raised {e!r}')
            pcls = _path_class(path)
            outside = [(k, p) for k, p in touched if not _inside(p)]
            outcome = 'escape-error' if isinstance(exc, RootEscapeError) else ('error' if exc is not None else 'ok')
            out.states.add(f'{pcls}|{op}|{outcome}')
            out.event(op, path, outcome, len(touched), len(outside))
            if pcls != 'plain':
                out.nontrivial = True
            if outside:
                out.violate('escaped-root', f'{_culprit(path)}|{op}' + ('|via-chain-prefix' if prefix else ''),
                            f'{op}({path!r}) with root {case["root"]!r} cwd {case["cwd"]!r} prefix {prefix!r} touched {outside[:3]} outside the root'
                            + (f' (then raised {type(exc).__name__})' if exc is not None else ''))
            if data is not None and any(s in data for s in secrets):
                out.violate('data-from-outside', f'{_culprit(path)}|{op}', f'{op}({path!r}) returned data of a file outside the root: {data[:60]!r}')
        # unify_path on the same strings
        for op, path in case['steps']:
            try:
                u = packlist.unify_path(path)
            except ValueError:
                continue
            except Exception as e:
                out.violate('wrong-exception', f'unify_path|{type(e).__name__}', f'unify_path({path!r}) raised {e!r}')
                continue
            norm = posixpath.normpath(u.replace('\\', '/')) if u else ''
            if norm == '..' or norm.startswith('../') or norm.startswith('/'):
                out.violate('escaped-root', f'unify_path|{_culprit(path)}', f'unify_path({path!r}) = {u!r} still escapes the pack root')
    out.sample = case
    return out


def _culprit(path: str) -> str:
    p = path.replace('\\', '/')
    parts = []
    if 'root_evil' in p or 'rootx' in p or 'root.bak' in p:
        parts.append('sibling-prefix')
    if p.startswith('/'):
        parts.append('absolute')
    if '..' in p.split('/'):
        parts.append('dotdot')
    if '\\' in path:
        parts.append('backslash')
    return '+'.join(parts) or 'plain'


def simplify(case: dict):
    if case['chain'] is not None:
        yield dict(case, chain=None)
    if case['root'] != ROOT:
        yield dict(case, root=ROOT)
    if case['cwd'] != G:
        yield dict(case, cwd=G)
    for i, (op, path) in enumerate(case['steps']):
        segs = path.replace('\\', '/').split('/')
        for k in range(len(segs)):
            np = '/'.join(segs[:k] + segs[k + 1:])
            yield dict(case, steps=case['steps'][:i] + [[op, np]] + case['steps'][i + 1:])

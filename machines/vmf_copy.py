"""C09 — copies of map objects are complete and independent of their source.

History machine: build an object from a seeded spec, copy it (within one map or into a second
map), then apply a seeded sequence of in-place mutations to ONE side (translate, localise, key /
fixup / output / vertex edits, and in-place arithmetic on every reachable vector) and observe the
OTHER side after every mutation.  A generic walker additionally reports any mutable object that
is reachable from both sides (aliasing), with the attribute path as the culprit.  Operators
documented as producing a new value (Keyvalues '+', Vec/Angle/Matrix arithmetic) must leave their
operands unchanged."""
from __future__ import annotations

import io
import re
from array import array

import attrs

from sim.core import Outcome, Rng
from machines import vmfgen as G

from srctools import vmf as V
from srctools.vmf import VMF, Entity, Solid, Side, Output, VisGroup, EntityFixup, FixupValue, UVAxis, DispVertex
from srctools.keyvalues import Keyvalues
from srctools.math import Vec, Angle, Matrix, FrozenVec, FrozenAngle, FrozenMatrix

PROP = 'C09'
LEVEL = 'exploration'
RUNS = {'quick': 12000, 'thorough': 1600000}
BATCH = {'quick': 150, 'thorough': 1500}
BUDGET_S = {'quick': 60.0, 'thorough': 1500.0}
RULE = ('one run = one seeded object (entity with brushes/outputs/fixups, brush, face incl. displacement power 1-4 with '
        'multiblend / allowed verts / point data, output, nested visgroup, Keyvalues tree) copied within a map or across '
        'maps, followed by a seeded list of in-place mutations on one side (the steps) with the other side observed after '
        'each; plus operator runs (Keyvalues +, Vec/Angle/Matrix binary operators with every operand type). Non-trivial: '
        'the copied object has >=1 optional block populated and >=1 mutation reached a nested vector. distinct = distinct '
        'event-log digest.')
STATE_MEASURE = 'distinct (object kind, optional blocks present, mutation kind) combinations'
REAL_VS_STUB = {'real': ['Entity/Solid/Side/Output/VisGroup.copy, Keyvalues.copy/__add__/__iadd__/extend, EntityFixup copy paths, '
                         'srctools.math operators (Python twin)'], 'stub': ['the caller (mutation script)']}
ASSUMPTIONS = ['IDs are excluded from the completeness comparison (the statement says "apart from freshly assigned IDs")',
               'the owning VMF object is shared by design and excluded from the aliasing walk',
               'Python twin of srctools.math only']

KINDS = ['entity', 'entity', 'solid', 'side', 'side', 'output', 'visgroup', 'kv', 'fixup', 'operators']


def _gen_kv(r: Rng, depth=0):
    if depth >= 3 or r.chance(0.5):
        return [G.rname(r), G.rstr(r, 0.3)]
    return [G.rname(r), [_gen_kv(r, depth + 1) for _ in range(r.randrange(0, 4))]]


def gen(rng: Rng, tier: str, index: int) -> dict:
    r = rng.child('obj')
    kind = r.pick(KINDS)
    case = {'kind': kind, 'cross_map': r.chance(0.4), 'mutate': r.pick(['copy', 'orig']), 'steps': []}
    if kind == 'entity':
        case['spec'] = G.gen_entity(r, r.pick([0.5, 1.0]), 3, 2, brush=r.pick([0, 1, 2]))
    elif kind == 'solid':
        case['spec'] = G.gen_solid(r, r.pick([0.5, 1.0]), 3, 2)
    elif kind == 'side':
        s = G.gen_side(r, 1.0)
        if 'disp' not in s and r.chance(0.7):
            for _ in range(20):
                s = G.gen_side(r, 1.0)
                if 'disp' in s:
                    break
        case['spec'] = s
    elif kind == 'output':
        case['spec'] = G.gen_output(r)
    elif kind == 'visgroup':
        case['spec'] = G.gen_visgroup(r)
    elif kind == 'kv':
        case['spec'] = [G.rname(r), [_gen_kv(r, 1) for _ in range(r.randrange(1, 5))]]
        case['other'] = [_gen_kv(r, 1) for _ in range(r.randrange(0, 4))]
        case['via'] = r.pick(['copy', 'add_root', 'add_list', 'add_named', 'iadd', 'extend'])
    elif kind == 'fixup':
        case['spec'] = [[G.rname(r), G.rstr(r, 0.2), r.randrange(1, 6)] for _ in range(r.randrange(1, 5))]
        case['via'] = r.pick(['copy.copy', 'deepcopy', 'entity.copy', 'init', 'pickle'])
    else:
        case['spec'] = {'a': [r.pick([0.0, 1.0, -2.5, 90.0, 1e-9, 359.5]) for _ in range(3)],
                        'b': [r.pick([0.0, 1.0, 3.0, 45.0, 270.0]) for _ in range(3)],
                        'ta': r.pick(['Vec', 'FrozenVec', 'Angle', 'FrozenAngle', 'Matrix', 'FrozenMatrix', 'tuple']),
                        'tb': r.pick(['Vec', 'FrozenVec', 'Angle', 'FrozenAngle', 'Matrix', 'FrozenMatrix', 'tuple', 'float']),
                        'op': r.pick(['+', '-', '*', '/', '//', '%', '@', 'neg', 'abs', 'cross', 'dot', 'norm', 'rotate'])}
    m = rng.child('mut')
    for _ in range(m.randrange(1, 8)):
        case['steps'].append([m.pick(['translate', 'localise', 'key', 'fixup', 'output', 'vert', 'vec_inplace', 'list_append', 'uv',
                                      'color', 'allowed', 'points', 'kv_edit', 'visname']), m.randrange(1000), m.randrange(1, 50)])
    return case


# ------------------------------------------------------------------ generic walker
_ATOM = (str, int, float, bool, type(None), bytes, FrozenVec, FrozenAngle, FrozenMatrix, V.Vec4, re.Pattern)
_SKIP_ATTRS = {'map', 'vmf'}


def _children(obj):
    if isinstance(obj, (list, tuple)):
        for i, x in enumerate(obj):
            yield f'[{i}]', x
    elif isinstance(obj, dict):
        for k, x in obj.items():
            yield f'[{k!r}]', x
    elif isinstance(obj, (set, frozenset)):
        for x in sorted(obj, key=repr):
            yield '{}', x
    elif isinstance(obj, Keyvalues):
        yield '._value', obj._value
    else:
        names = []
        for klass in type(obj).__mro__:
            sl = klass.__dict__.get('__slots__', ())
            if isinstance(sl, str):
                sl = (sl,)
            names.extend(sl)
        if hasattr(obj, '__dict__'):
            names.extend(vars(obj))
        for n in names:
            if n in _SKIP_ATTRS or n.startswith('__') or n == '_verif_serial':
                continue
            try:
                yield '.' + n, getattr(obj, n)
            except AttributeError:
                continue


def walk_mutables(root):
    """id -> (path, obj) for every mutable object reachable from root."""
    res = {}
    stack = [('', root)]
    while stack:
        path, obj = stack.pop()
        if isinstance(obj, _ATOM) or isinstance(obj, (type, VMF)) or callable(obj) and not isinstance(obj, (Vec, Angle, Matrix)):
            continue
        import enum
        if isinstance(obj, enum.Enum):
            continue
        if id(obj) in res:
            continue
        res[id(obj)] = (path, obj)
        if isinstance(obj, (Vec, Angle, Matrix, array)):
            continue
        for name, child in _children(obj):
            stack.append((path + name, child))
    return res


def find_vectors(root):
    return [(p, o) for p, o in walk_mutables(root).values() if isinstance(o, (Vec, Angle))]


# ------------------------------------------------------------------ observation
def observe(kind, obj):
    if kind == 'entity':
        o = G.obs_entity(obj)
        buf = io.StringIO()
        obj.export(buf)
        o['text'] = re.sub(r'"nodeid" "\d+"', '"nodeid" "#"', _strip_ids(buf.getvalue()))
        # node IDs are IDs: a copy in the same map must get a fresh one
        o['keys'] = {k: ('#' if k.casefold() == 'nodeid' and v.isdigit() else v) for k, v in o['keys'].items()}
        return _noid(o)
    if kind == 'solid':
        o = G.obs_solid(obj)
        buf = io.StringIO()
        obj.export(buf)
        o['text'] = _strip_ids(buf.getvalue())
        return _noid(o)
    if kind == 'side':
        o = G.obs_side(obj)
        buf = io.StringIO()
        obj.export(buf)
        o['text'] = _strip_ids(buf.getvalue())
        return _noid(o)
    if kind == 'output':
        return dict(G.obs_output(obj), text=obj.as_keyvalue())
    if kind == 'visgroup':
        buf = io.StringIO()
        obj.export(buf)
        return _noid(dict(G.obs_visgroup(obj), text=re.sub(r'"visgroupid" "\d+"', '"visgroupid" "#"', buf.getvalue())))
    if kind == 'kv':
        return _kvsnap(obj)
    if kind == 'fixup':
        # behaviour, not just stored fields: a complete copy substitutes variables and answers lookups like its source
        probe = ' '.join('$' + f.var for f in obj._fixup.values()) + ' $unknown'
        try:
            sub = obj.substitute(probe, allow_invert=True)
        except Exception as exc:
            sub = f'<{type(exc).__name__}>'
        return {'values': sorted([f.id, f.var, f.value] for f in obj._fixup.values()), 'substitute': sub,
                'items': sorted(obj.items()), 'len': len(obj)}
    raise ValueError(kind)


def _kvsnap(kv):
    if isinstance(kv._value, list):
        return [kv._real_name, [_kvsnap(c) for c in kv._value]]
    return [kv._real_name, kv._value]


def _strip_ids(text):
    return re.sub(r'"id" "\d+"', '"id" "#"', text)


def _noid(o):
    if isinstance(o, dict):
        return {k: (None if k == 'id' else _noid(v)) for k, v in o.items()}
    if isinstance(o, list):
        return [_noid(x) for x in o]
    return o


# ------------------------------------------------------------------ mutations
def mutate(kind, obj, st, out):
    """Apply one in-place mutation; returns a label of what was actually done."""
    op, a, b = st
    if op == 'vec_inplace':
        vecs = find_vectors(obj)
        if not vecs:
            return None
        path, v = vecs[a % len(vecs)]
        if isinstance(v, Vec):
            how = b % 4
            if how == 0:
                v += Vec(b, 1, 2)
            elif how == 1:
                v.x = v.x + b
            elif how == 2:
                v @= Angle(0, 90, 0)
                v.z += 1
            else:
                v.localise(Vec(1, b, 3), Angle(0, 45, 0))
        else:
            v.yaw = (v.yaw + b) % 360
        out.stats['mutations_on_nested_vectors'] += 1
        return 'vec:' + G.generic_path(path)
    if kind in ('entity', 'solid', 'side'):
        sides = [obj] if kind == 'side' else ([s for sol in obj.solids for s in sol.sides] if kind == 'entity' else list(obj.sides))
        solids = [] if kind == 'side' else (list(obj.solids) if kind == 'entity' else [obj])
        if op == 'translate' and (solids or sides):
            (solids or sides)[a % len(solids or sides)].translate(Vec(b, -b, 1))
            return 'translate'
        if op == 'localise' and (solids or sides):
            (solids or sides)[a % len(solids or sides)].localise(Vec(b, 0, 1), Angle(0, 90, 0))
            return 'localise'
        if op == 'vert':
            disps = [s for s in sides if s.is_disp]
            if disps:
                s = disps[a % len(disps)]
                vt = s._disp_verts[b % len(s._disp_verts)]
                vt.normal.x += 1
                vt.distance += b
                vt.alpha = float(b)
                if vt.multi_colors is not None:
                    vt.multi_colors[0].x += 0.5
                    vt.multi_colors.append(Vec(9, 9, 9))
                    vt.multi_colors.pop()
                return 'vert'
        if op == 'allowed':
            disps = [s for s in sides if s.is_disp]
            if disps:
                disps[a % len(disps)].disp_allowed_vert[b % 10] = b
                return 'allowed'
        if op == 'points':
            ps = [s for s in sides if s.strata_points is not None]
            if ps:
                s = ps[a % len(ps)]
                s.strata_points[0].x += b
                s.strata_points.append(Vec(b, b, b))
                return 'points'
        if op == 'uv' and sides:
            s = sides[a % len(sides)]
            s.uaxis.offset += b
            s.vaxis.scale = 0.5
            return 'uv'
        if op == 'color' and (solids or kind == 'entity'):
            tgt = solids[a % len(solids)] if solids and b % 2 else obj
            if hasattr(tgt, 'editor_color'):
                tgt.editor_color.x = float((tgt.editor_color.x + b) % 256)
                return 'color'
        if op == 'list_append' and kind == 'entity':
            obj.outputs.append(Output('OnNew', 't', 'In'))
            obj.groups.add(900 + b)
            obj.visgroup_ids.add(800 + b)
            return 'list_append'
        if op == 'list_append' and kind == 'solid':
            obj.visgroup_ids.add(800 + b)
            obj.sides.append(Side(obj.map, [Vec(), Vec(1, 0, 0), Vec(1, 1, 0)]))
            return 'list_append'
        if kind == 'entity':
            if op == 'key':
                obj['key' + str(b % 3)] = 'changed' + str(b)
                obj['classname'] = 'changed_class'
                return 'key'
            if op == 'fixup':
                names = list(obj.fixup)
                if names and b % 2:
                    obj.fixup[names[a % len(names)]] = 'changedval' + str(b)
                    return 'fixup-edit'
                obj.fixup['newvar' + str(b)] = 'x'
                return 'fixup-add'
            if op == 'output' and obj.outputs:
                o = obj.outputs[a % len(obj.outputs)]
                o.target = 'changed_target'
                o.delay += 1
                return 'output'
    if kind == 'output' and op in ('output', 'key'):
        obj.target = 'changed'
        obj.params = 'p' + str(b)
        obj.times = 7
        return 'output'
    if kind == 'visgroup' and op in ('visname', 'color', 'list_append'):
        if op == 'visname':
            obj.name = 'changed'
            for c in obj.child_groups:
                c.name = 'changed_child'
        elif op == 'color':
            obj.color.x = float((obj.color.x + b) % 256)
            for c in obj.child_groups:
                c.color.y = 1.5
        else:
            obj.child_groups.append(VisGroup(obj.vmf, 'extra'))
        return 'vis-' + op
    if kind == 'kv' and op in ('kv_edit', 'key', 'list_append'):
        leaves = [k for k in obj.iter_tree(blocks=True)]
        if leaves:
            k = leaves[a % len(leaves)]
            if k.has_children():
                k.append(Keyvalues('added', str(b)))
            else:
                k.value = 'changed' + str(b)
            k.name = 'renamed'
            return 'kv_edit'
    if kind == 'fixup' and op in ('fixup', 'key'):
        names = list(obj)
        if names and b % 2:
            obj[names[a % len(names)]] = 'changed' + str(b)
            return 'fixup-edit'
        obj['nv' + str(b)] = 'y'
        return 'fixup-add'
    return None


# ------------------------------------------------------------------ run
def run(case: dict) -> Outcome:
    out = Outcome()
    kind = case['kind']
    if kind == 'operators':
        return _run_operators(case, out)
    vmf_a, vmf_b = VMF(), VMF()
    target = vmf_b if case['cross_map'] else None
    spec = case['spec']
    via = case.get('via', 'copy')
    try:
        if kind == 'entity':
            orig = G.build_entity(vmf_a, spec)
            cp = orig.copy(vmf_file=target)
        elif kind == 'solid':
            orig = G.build_solid(vmf_a, spec)
            cp = orig.copy(vmf_file=target)
        elif kind == 'side':
            orig = G.build_side(vmf_a, spec)
            cp = orig.copy(vmf_file=target)
        elif kind == 'output':
            orig = G.build_output(spec)
            cp = orig.copy()
        elif kind == 'visgroup':
            orig = G.build_visgroup(vmf_a, spec)
            cp = orig.copy(target)
        elif kind == 'kv':
            orig = _build_kv(spec)
            other = [_build_kv(x) for x in case['other']]
            before_other = [_kvsnap(x) for x in other]
            before = _kvsnap(orig)
            expected = None
            if via == 'copy':
                cp = orig.copy()
            elif via == 'add_root':
                cp = orig + Keyvalues.root(*other)
                expected = [before[0], before[1] + before_other]
            elif via == 'add_list':
                cp = orig + other
                expected = [before[0], before[1] + before_other]
            elif via == 'add_named':
                named = Keyvalues('blk', list(other))
                cp = orig + named
                expected = [before[0], before[1] + [['blk', before_other]]]
            elif via == 'iadd':
                cp = orig.copy()
                cp += other
                expected = [before[0], before[1] + before_other]
            else:
                cp = orig.copy()
                cp.extend(other)
                expected = [before[0], before[1] + before_other]
            if via.startswith('add'):
                if _kvsnap(orig) != before:
                    out.violate('operand-mutated:Keyvalues.__add__', 'left', f'a + b changed a: {before} -> {_kvsnap(orig)}')
                if [_kvsnap(x) for x in other] != before_other:
                    out.violate('operand-mutated:Keyvalues.__add__', 'right', 'a + b changed b')
            if expected is not None and _kvsnap(cp) != expected:
                out.violate('copy-incomplete:Keyvalues.' + via, 'result', f'{via}: result {_kvsnap(cp)} expected {expected}')
            # the appended children must be independent of `other` too
            orig_pair = (orig, other)
        elif kind == 'fixup':
            import copy as _copy
            import pickle
            orig = EntityFixup([FixupValue(v, val, i) for v, val, i in spec])
            if via == 'copy.copy':
                cp = _copy.copy(orig)
            elif via == 'deepcopy':
                cp = _copy.deepcopy(orig)
            elif via == 'pickle':
                cp = pickle.loads(pickle.dumps(orig))
            elif via == 'init':
                cp = EntityFixup(orig.copy_values())
            else:
                e = Entity(vmf_a, keys={'classname': 'func_instance'})
                for v, val, i in spec:
                    e.fixup[v] = val
                orig = e.fixup
                cp = e.copy(vmf_file=target).fixup
    except Exception as exc:
        out.violate('copy-raised', f'{kind}|{type(exc).__name__}', f'{kind} copy raised {exc!r}')
        return out
    blocks = _blocks(kind, spec)
    out.states.update(f'{kind}:{b}' for b in blocks)
    # ---- completeness
    try:
        oo, oc = observe(kind, orig), observe(kind, cp)
    except Exception as exc:
        out.violate('observe-raised', f'{kind}|{type(exc).__name__}', repr(exc))
        return out
    if kind not in ('kv',) or via == 'copy':
        df = G.diff(oo, oc)
        if df is not None:
            out.violate('copy-incomplete:' + G.generic_path(df[0]), kind, f'{kind} copy differs at {df[0]}: original {str(df[1])[:200]!r} copy {str(df[2])[:200]!r}')
    # ---- aliasing walk
    roots_a = [orig] if kind != 'kv' else [orig] + list(other)
    wa = {}
    for ra in roots_a:
        wa.update(walk_mutables(ra))
    wc = walk_mutables(cp)
    for k in wa:
        if k in wc:
            pa, _ = wa[k]
            pc, ob = wc[k]
            out.violate('aliased:' + G.generic_path(pc or pa), f'{kind}|{type(ob).__name__}',
                        f'{type(ob).__name__} object shared between original{pa} and copy{pc}')
            break
    # ---- mutate one side, observe the other after every mutation
    victim, watched = (cp, orig) if case['mutate'] == 'copy' else (orig, cp)
    ref = observe(kind, watched)
    ref_other = [_kvsnap(x) for x in other] if kind == 'kv' else None
    for st in case['steps']:
        out.steps += 1
        try:
            label = mutate(kind, victim, st, out)
        except Exception as exc:
            out.event(st, 'mutation-raised', type(exc).__name__)
            continue
        if label is None:
            continue
        out.states.add(f'{kind}:mut:{label.split(":")[0]}')
        now = observe(kind, watched)
        df = G.diff(ref, now)
        out.event(st, label, df is None)
        if df is not None:
            out.violate('aliased:' + G.generic_path(df[0]), f'{kind}|via-mutation|{label.split(":")[0]}',
                        f'mutating the {"copy" if victim is cp else "original"} ({label}) changed the other side at {df[0]}: {str(df[1])[:120]!r} -> {str(df[2])[:120]!r}')
            break
        if kind == 'kv' and victim is cp and [_kvsnap(x) for x in other] != ref_other:
            out.violate('aliased:appended-children', 'kv|via-mutation', f'mutating the result of {via} changed the right-hand operand')
            break
    if blocks and out.stats['mutations_on_nested_vectors']:
        out.nontrivial = True
    if kind in ('kv', 'output', 'fixup', 'visgroup') and out.steps:
        out.nontrivial = True
    out.sample = {'kind': kind, 'cross_map': case['cross_map'], 'mutate': case['mutate'], 'via': via, 'blocks': sorted(blocks),
                  'steps': case['steps']}
    return out


def _build_kv(node):
    name, val = node
    if isinstance(val, list):
        return Keyvalues(name, [_build_kv(c) for c in val])
    return Keyvalues(name, val)


def _blocks(kind, spec):
    b = set()
    def side(s):
        if 'disp' in s:
            b.add('disp')
            if s['disp']['multiblend']:
                b.add('multiblend')
            if any(x != -1 for x in s['disp']['allowed']):
                b.add('allowed')
        if 'points' in s:
            b.add('points')
    def solid(s):
        for sd in s.get('sides', []) + [x for x in s.get('edit_sides', []) if x]:
            side(sd)
        if s.get('prism') and s['prism'][2]:
            b.add('points')
        if s['vis_ids']:
            b.add('vis')
    if kind == 'entity':
        for s in spec['solids']:
            solid(s)
        for k in ('outputs', 'fixups', 'groups', 'vis_ids', 'comments'):
            if spec[k]:
                b.add(k)
    elif kind == 'solid':
        solid(spec)
    elif kind == 'side':
        side(spec)
    elif kind == 'visgroup':
        if spec['children']:
            b.add('children')
    return b


# ------------------------------------------------------------------ operators
def _mk(t, vals):
    if t == 'Vec':
        return Vec(*vals)
    if t == 'FrozenVec':
        return FrozenVec(*vals)
    if t == 'Angle':
        return Angle(*vals)
    if t == 'FrozenAngle':
        return FrozenAngle(*vals)
    if t == 'Matrix':
        return Matrix.from_angle(Angle(*vals))
    if t == 'FrozenMatrix':
        return FrozenMatrix.from_angle(Angle(*vals))
    if t == 'tuple':
        return tuple(vals)
    return float(vals[0]) or 2.0


def _snap(x):
    if isinstance(x, (Vec, FrozenVec)):
        return ('v', x.x, x.y, x.z)
    if isinstance(x, (Angle, FrozenAngle)):
        return ('a', x.pitch, x.yaw, x.roll)
    if isinstance(x, (Matrix, FrozenMatrix)):
        return ('m',) + tuple(x[i, j] for i in range(3) for j in range(3))
    return ('o', x)


def _run_operators(case, out: Outcome):
    sp = case['spec']
    a, b = _mk(sp['ta'], sp['a']), _mk(sp['tb'], sp['b'])
    sa, sb = _snap(a), _snap(b)
    op = sp['op']
    res = None
    try:
        if op == '+':
            res = a + b
        elif op == '-':
            res = a - b
        elif op == '*':
            res = a * b
        elif op == '/':
            res = a / b
        elif op == '//':
            res = a // b
        elif op == '%':
            res = a % b
        elif op == '@':
            res = a @ b
        elif op == 'neg':
            res = -a
        elif op == 'abs':
            res = abs(a)
        elif op == 'cross':
            res = a.cross(b)
        elif op == 'dot':
            res = a.dot(b)
        elif op == 'norm':
            res = a.norm()
        elif op == 'rotate':
            res = a @ Matrix.from_angle(Angle(0, 90, 0)) if not isinstance(a, (tuple, float)) else None
    except Exception as exc:
        out.event('op', op, sp['ta'], sp['tb'], 'raised', type(exc).__name__)
    if _snap(a) != sa:
        out.violate(f'operand-mutated:{op}', f'{sp["ta"]}|left', f'{sp["ta"]} {op} {sp["tb"]} changed the left operand {sa} -> {_snap(a)}')
    if _snap(b) != sb:
        out.violate(f'operand-mutated:{op}', f'{sp["tb"]}|right', f'{sp["ta"]} {op} {sp["tb"]} changed the right operand {sb} -> {_snap(b)}')
    if res is not None and (res is a or res is b) and isinstance(res, (Vec, Angle, Matrix)):
        out.violate(f'operand-mutated:{op}', 'result-is-operand', f'{sp["ta"]} {op} {sp["tb"]} returned one of its mutable operands')
    out.states.add(f'op:{op}:{sp["ta"]}:{sp["tb"]}')
    out.event('op', op, sp['ta'], sp['tb'], None if res is None else str(_snap(res))[:80])
    out.nontrivial = True
    out.steps = 1
    out.sample = sp
    return out


def simplify(case: dict):
    if case.get('cross_map'):
        yield dict(case, cross_map=False)
    spec = case.get('spec')
    if case['kind'] == 'entity':
        for fld, empty in (('outputs', []), ('fixups', []), ('solids', []), ('groups', []), ('vis_ids', []), ('comments', '')):
            if spec[fld]:
                yield dict(case, spec=dict(spec, **{fld: empty}))
        for j in range(len(spec['solids'])):
            yield dict(case, spec=dict(spec, solids=spec['solids'][:j] + spec['solids'][j + 1:]))
    if case['kind'] == 'side' and 'disp' in spec and spec['disp']['power'] > 1:
        d = spec['disp']
        yield dict(case, spec=dict(spec, disp=dict(d, power=1, verts=d['verts'][:9])))

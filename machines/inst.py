"""C17 — instance collapse transforms contents exactly and leaves the template intact.

History machine: k templates, n placements (origin, angles, fixup style, fixup table), a seeded
*order* of collapses that reuse one cached InstanceFile per template (as collapse_all does), and
recursive instance graphs run under a step budget (bounded liveness on a deterministic clock:
the number of collapse_one calls).  Oracles: template immutability after every collapse;
placement law against an independent reference rotation written in plain math; naming /
substitution law against three-line reference functions; order independence (what a placement
adds does not depend on what was collapsed before it); termination of collapse_all."""
from __future__ import annotations

import io
import math
import re

from sim.core import Outcome, Rng
from machines import vmfgen as G

from srctools import instancing
from srctools.instancing import Instance, InstanceFile, FixupStyle, collapse_one, collapse_all
from srctools.vmf import VMF, Entity, FixupValue, Output
from srctools.keyvalues import Keyvalues
from srctools.filesys import VirtualFileSystem
from srctools.math import Vec, Angle, Matrix

PROP = 'C17'
LEVEL = 'exploration'
RUNS = {'quick': 2500, 'thorough': 150000}
BATCH = {'quick': 40, 'thorough': 400}
BUDGET_S = {'quick': 70.0, 'thorough': 1500.0}
SHRINK_S = 15.0
RULE = ('one run = 1-3 seeded templates (brushes incl. displacements and point data, point and brush entities of real '
        'FGD classes with position / angle / name-typed keys, outputs, $variables) and 1-6 placements (identity, '
        'axis-aligned and arbitrary angles; three fixup styles; fixup tables) collapsed in a seeded order through one '
        'cached InstanceFile per template; or a recursive instance graph (self / mutual inclusion, branching 1-2) run '
        'through collapse_all under a budget of collapse_one calls. Non-trivial: >=2 collapses share a template, or the '
        'graph is recursive. distinct = distinct event-log digest.')
STATE_MEASURE = 'distinct (rotation class, fixup style, template features, recursion shape) combinations'
REAL_VS_STUB = {'real': ['srctools.instancing.collapse_one/collapse_all/Instance/InstanceFile', 'srctools.vmf copy/localise code',
                         'srctools.fgd engine database (key value types)', 'VirtualFileSystem'],
                'stub': ['the caller choosing the order of collapses; reference rotation/naming models in this file']}
ASSUMPTIONS = ['placements keep |pitch| away from 90 degrees by >= 1e-3 (gimbal branch is C04 territory)',
               'numbers compared as denoted by exported text with 3e-6 absolute + 1e-9 relative tolerance; orientations compared as matrices',
               '$variable references use identifier names followed by a non-identifier character',
               'only key types in the curated table below are judged (position, angles, entity names, plain)']

# (class, key) -> semantic type the reference model applies
KEYTYPES = {
    'origin': 'pos', 'angles': 'ang', 'targetname': 'name', 'parentname': 'name', 'target': 'name', 'altpath': 'name',
    'movedir': 'ang', 'lightningstart': 'name', 'lightningend': 'name', 'filtername': 'name', 'sourceentityname': 'name',
    'nextkey': 'name', 'hingeaxis': 'pos', 'attach1': 'name', 'template01': 'name',
    'pitch': 'negpitch',
    'file': 'plain', 'model': 'plain', 'speed': 'plain', 'texture': 'plain', 'wait': 'plain', 'message': 'plain', 'lightcolor': 'plain',
}
CLASS_KEYS = {
    'info_target': [], 'prop_dynamic': ['parentname', 'model'], 'path_track': ['target', 'altpath'],
    'env_beam': ['LightningStart', 'LightningEnd', 'texture'], 'ambient_generic': ['SourceEntityName', 'message'],
    'logic_relay': [], 'move_rope': ['NextKey'], 'phys_hinge': ['hingeaxis', 'attach1'], 'point_template': ['Template01'],
    'env_projectedtexture': ['target', 'lightcolor'], 'light_spot': ['pitch'], 'light_environment': ['pitch'],
}
BRUSH_CLASSES = {'func_door': ['movedir', 'parentname', 'speed'], 'trigger_multiple': ['filtername', 'wait'], 'func_brush': [],
                 'func_detail': []}
VARS = ['n', 'count', 'skin', 'tgt']


# ------------------------------------------------------------------ reference models (plain math)
def ref_matrix(p, y, r):
    """Source convention: roll about X, then pitch about Y, then yaw about Z; row vectors (v' = v M)."""
    rp, ry, rr = math.radians(p), math.radians(y), math.radians(r)
    cp, sp, cy, sy, cr, sr = math.cos(rp), math.sin(rp), math.cos(ry), math.sin(ry), math.cos(rr), math.sin(rr)
    return [
        [cp * cy, cp * sy, -sp],
        [sr * sp * cy - cr * sy, sr * sp * sy + cr * cy, sr * cp],
        [cr * sp * cy + sr * sy, cr * sp * sy - sr * cy, cr * cp],
    ]


def mat_vec(v, m):
    return [v[0] * m[0][0] + v[1] * m[1][0] + v[2] * m[2][0],
            v[0] * m[0][1] + v[1] * m[1][1] + v[2] * m[2][1],
            v[0] * m[0][2] + v[1] * m[1][2] + v[2] * m[2][2]]


def mat_mul(a, b):
    return [[sum(a[i][k] * b[k][j] for k in range(3)) for j in range(3)] for i in range(3)]


def ref_pos(v, m, o):
    x = mat_vec(v, m)
    return [x[0] + o[0], x[1] + o[1], x[2] + o[2]]


def ref_fixup_name(style, inst_name, name):
    if not name or name[0] in '@!':
        return name
    return {0: f'{inst_name}-{name}', 1: f'{name}-{inst_name}', 2: name}[style]


_IDENT = re.compile(r'[A-Za-z_][A-Za-z0-9_]*')


def ref_substitute(table, text):
    """$var -> value (case-insensitive, known names preferred longest first, unknown identifiers -> '')."""
    known = sorted(table, key=len, reverse=True)
    out = []
    i = 0
    while i < len(text):
        if text[i] == '$':
            rest = text[i + 1:]
            for k in known:
                if rest[:len(k)].casefold() == k:
                    out.append(table[k])
                    i += 1 + len(k)
                    break
            else:
                m = _IDENT.match(rest)
                if m:
                    i += 1 + m.end()
                else:
                    out.append('$')
                    i += 1
            continue
        out.append(text[i])
        i += 1
    return ''.join(out)


# ------------------------------------------------------------------ generation
def _gen_template(r: Rng, idx: int, nested=None) -> dict:
    ents = []
    for _ in range(r.randrange(1, 5)):
        brush = r.chance(0.3)
        cls = r.pick(sorted(BRUSH_CLASSES if brush else CLASS_KEYS))
        keys = {'classname': cls}
        if r.chance(0.75):
            keys['targetname'] = r.pick(['door', 'relay_$n', 'tgt', '@global', 'part$count-x', '!activator', 'Rope'])
        keys['origin'] = ' '.join(str(float(r.randrange(-256, 256))) for _ in range(3))
        if r.chance(0.7) or 'pitch' in (BRUSH_CLASSES if brush else CLASS_KEYS)[cls]:      # Hammer always writes angles next to a pitch key
            keys['angles'] = f'{r.pick([0, 0, 30, -45, 80])} {r.randrange(0, 360)} {r.pick([0, 0, 15, 90])}'
        for k in (BRUSH_CLASSES if brush else CLASS_KEYS)[cls]:
            if not r.chance(0.7) and k != 'pitch':
                continue
            t = KEYTYPES[k.casefold()]
            if t == 'name':
                keys[k] = r.pick(['door', 'tgt', 'relay_$n', '', '@global', 'other$tgt-y'])
            elif t == 'ang':
                keys[k] = f'{r.pick([0, 0, -30])} {r.randrange(0, 360)} 0'
            elif t == 'negpitch':
                keys[k] = r.pick(['-45', '30', '0', '-80', '12.5', '-90'])
            elif t == 'pos':
                keys[k] = ' '.join(str(float(r.randrange(-64, 64))) for _ in range(3))
            else:
                keys[k] = r.pick(['models/x.mdl', '1', 'skin$skin', '255 128 0 $count'])
        e = G.gen_entity(r, 0.6, 0, 0, brush=(r.randrange(1, 3) if brush else 0))
        e['keys'] = keys
        e['fixups'] = []
        e['groups'] = []
        e['vis_ids'] = []
        e['hidden'] = r.chance(0.1)
        for o in e['outputs']:
            o['target'] = r.pick(['door', 'relay_$n', '@global', '!self', 'tgt', ''])
        ents.append(e)
    if r.chance(0.35):
        ents.append({'keys': {'classname': 'func_instance', 'file': 'instances/nested.vmf', 'targetname': r.pick(['sub', 'sub_$n', '']),
                              'origin': '16 0 0', 'angles': '0 90 0', 'fixup_style': '0'}, 'des_id': -1, 'outputs': [],
                     'fixups': [['target', r.pick(['door', 'relay_x', '@glob', '5']), 1], ['num', '5', 2]][:r.randrange(1, 3)],
                     'hidden': False, 'groups': [], 'vis_ids': [], 'vis_shown': True, 'vis_auto_shown': True,
                     'logical_pos': None, 'color': [255.0, 255.0, 255.0], 'comments': '', 'solids': []})
    if r.chance(0.3):
        ents.append({'keys': {'classname': 'func_instance_parms', 'parm1': '$n integer 3', 'parm2': '$skin string'}, 'des_id': -1, 'outputs': [],
                     'fixups': [], 'hidden': False, 'groups': [], 'vis_ids': [], 'vis_shown': True, 'vis_auto_shown': True,
                     'logical_pos': None, 'color': [255.0, 255.0, 255.0], 'comments': '', 'solids': []})
    brushes = [G.gen_solid(r, r.pick([0.3, 1.0]), 0, 0) for _ in range(r.randrange(0, 3))]
    for b in brushes:
        b['group_id'] = None
        b['vis_ids'] = []
    return {'file': f'instances/t{idx}.vmf', 'entities': ents, 'brushes': brushes, 'nested': nested or []}


def _gen_placement(r: Rng, ntemplates: int, i: int) -> dict:
    rot = r.pick(['identity', 'axis', 'axis', 'arbitrary', 'arbitrary'])
    if rot == 'identity':
        ang = [0.0, 0.0, 0.0]
    elif rot == 'axis':
        ang = [float(r.pick([0, 0, 0])), float(r.pick([0, 90, 180, 270])), float(r.pick([0, 0, 90, 180]))]
    else:
        ang = [round(r.uniform(-85, 85), 3), round(r.uniform(0, 360), 3), round(r.uniform(-180, 180), 3) if r.chance(0.5) else 0.0]
    table = [[v, r.pick(['1', '7', 'abc', 'x y', '']), k + 1] for k, v in enumerate(VARS) if r.chance(0.6)]
    return {'t': r.randrange(ntemplates), 'name': r.pick([f'inst{i}', f'Inst_{i}', 'shared', 'a-b']), 'rot': rot,
            'origin': [float(r.randrange(-1024, 1024)) if r.chance(0.7) else round(r.uniform(-1024, 1024), 3) for _ in range(3)],
            'angles': ang, 'style': r.pick([0, 0, 1, 2]), 'fixups': table}


def gen(rng: Rng, tier: str, index: int) -> dict:
    r = rng.child('inst')
    if r.chance(0.15):
        shape = r.pick(['self', 'mutual', 'chain'])
        branching = r.pick([1, 1, 2])
        return {'mode': 'recursive', 'shape': shape, 'branching': branching, 'recur_limit': r.pick([None, None, 3, 8]),
                'spelling': r.pick([0, 0, 1, 2, 3, 4]),
                'templates': [_gen_template(r, 0), _gen_template(r, 1)], 'steps': []}
    nt = r.randrange(1, 4)
    templates = [_gen_template(r, i) for i in range(nt)]
    placements = [_gen_placement(r, nt, i) for i in range(r.randrange(1, 7))]
    order = list(range(len(placements)))
    r.shuffle(order)
    if r.chance(0.4) and placements:
        order.append(r.randrange(len(placements)))      # the same placement collapsed twice
    return {'mode': 'one', 'templates': templates, 'placements': placements, 'steps': order}


# ------------------------------------------------------------------ helpers
def _template_text(t: dict, files=None) -> str:
    spec = {'rich': 0.5, 'settings': {'hammer_version': 400, 'hammer_build': 8870, 'map_version': 1, 'is_prefab': False,
                                      'cordon_enabled': False, 'show_grid': True, 'show_3d_grid': False, 'snap_grid': True,
                                      'show_logic_grid': False, 'grid_spacing': 64, 'active_cam': -1, 'quickhide_count': 0},
            'strata_vis': None, 'viewports': None, 'spawn_keys': {}, 'visgroups': [], 'groups': [], 'cameras': [], 'cordons': [],
            'brushes': t['brushes'], 'entities': t['entities']}
    vmf = G.build_map(spec)
    for n in t.get('nested', []):
        vmf.create_ent('func_instance', file=n['file'], origin=' '.join(map(str, n['origin'])), angles=' '.join(map(str, n['angles'])),
                       targetname=n.get('name', ''), fixup_style='0')
    return vmf.export(inc_version=False)


def _load(text: str) -> InstanceFile:
    return InstanceFile(VMF.parse(Keyvalues.parse(text), preserve_ids=True))


def _file_obs(f: InstanceFile):
    return {
        'text': f.vmf.export(inc_version=False),
        'params': sorted([k, p.name, p.type.name, p.default] for k, p in f.params.items()),
        'proxy_in': sorted([list(k), G.obs_output(o)] for k, o in f.proxy_inputs.items()),
        'proxy_out': sorted([list(k), v[0], G.obs_output(v[1])] for k, v in f.proxy_outputs.items()),
        'proxy_pos': G.ovec(f.proxy_pos),
        'ent_fixups': [sorted([fx.id, fx.var, fx.value] for fx in (e._fixup._fixup.values() if e._fixup is not None else [])) for e in f.vmf.entities],
    }


def _mk_instance(p: dict) -> Instance:
    return Instance(p['name'], 'x.vmf', Vec(*p['origin']), Matrix.from_angle(Angle(*p['angles'])), FixupStyle(p['style']),
                    [], [FixupValue(v, val, i) for v, val, i in p['fixups']])


def _additions(vmf: VMF, ne: int, nb: int):
    return {'ents': [_strip(G.obs_entity(e)) for e in vmf.entities[ne:]], 'brushes': [_strip(G.obs_solid(s)) for s in vmf.brushes[nb:]]}


def _strip(o):
    if isinstance(o, dict):
        res = {}
        for k, v in o.items():
            if k == 'id':
                continue
            if k == 'logical_pos':
                continue          # defaults to "[0 <id>]"
            res[k] = _strip(v)
        return res
    if isinstance(o, list):
        return [_strip(x) for x in o]
    return o


def _collapse_alone(text: str, p: dict, cache) -> dict:
    target = VMF()
    f = _load(text)
    collapse_one(target, _mk_instance(p), f, engine_cache=cache)
    return _additions(target, 0, 0), target


def _nums(s: str):
    return [float(x) for x in s.replace(',', ' ').split()]


def _close(a, b, tol=3e-6):
    return abs(a - b) <= tol + 1e-9 * max(abs(a), abs(b))


def _vec_close(a, b, tol=3e-6):
    return len(a) == len(b) and all(_close(x, y, tol) for x, y in zip(a, b))


def _transform_additions(ident: dict, m, o):
    """Apply the reference placement to what the identity collapse added."""
    def side(s):
        s = dict(s)
        s['planes'] = [ref_pos(p, m, o) for p in s['planes']]
        for ax in ('uaxis', 'vaxis'):
            x, y, z, off, scale = s[ax]
            v = mat_vec([x, y, z], m)
            s[ax] = v + [off - (v[0] * o[0] + v[1] * o[1] + v[2] * o[2]) / scale, scale]
        if s.get('points') is not None:
            s['points'] = [ref_pos(p, m, o) for p in s['points']]
        if s.get('disp'):
            d = dict(s['disp'])
            d['pos'] = ref_pos(d['pos'], m, o)
            d['verts'] = [dict(v, n=mat_vec(v['n'], m), o=mat_vec(v['o'], m), on=mat_vec(v['on'], m)) for v in d['verts']]
            s['disp'] = d
        return s

    def solid(b):
        return dict(b, sides=[side(s) for s in b['sides']])

    def ent(e):
        e = dict(e)
        keys = {}
        for k, v in e['keys'].items():
            t = KEYTYPES.get(k.casefold(), 'plain')
            if t == 'pos':
                try:
                    keys[k] = ('pos', ref_pos(_nums(v), m, o))
                except Exception:
                    keys[k] = ('raw', v)
            elif t == 'ang':
                try:
                    keys[k] = ('ang', mat_mul(ref_matrix(*_nums(v)), m))
                except Exception:
                    keys[k] = ('raw', v)
            elif t == 'negpitch':
                keys[k] = ('negpitch', None)      # judged against the entity's own resulting angles
            else:
                keys[k] = ('raw', v)
        e['keys'] = keys
        e['solids'] = [solid(b) for b in e['solids']]
        return e
    return {'ents': [ent(e) for e in ident['ents']], 'brushes': [solid(b) for b in ident['brushes']]}


def _compare_law(out: Outcome, want: dict, got: dict, p: dict):
    """want has ('pos'|'ang'|'raw', value) key entries; got has strings."""
    def fail(field, detail):
        out.violate('placement-law:' + field, f'{p["rot"]}|style={p["style"]}', f'placement {p["origin"]} {p["angles"]}: {detail}')

    if len(want['ents']) != len(got['ents']) or len(want['brushes']) != len(got['brushes']):
        fail('count', f'identity collapse adds {len(want["ents"])} ents / {len(want["brushes"])} brushes, placed collapse {len(got["ents"])} / {len(got["brushes"])}')
        return

    def cmp_solid(w, g, where):
        for si, (ws, gs) in enumerate(zip(w['sides'], g['sides'])):
            for pi, (a, b) in enumerate(zip(ws['planes'], gs['planes'])):
                if not _vec_close(a, b, 2e-5):
                    return fail('plane', f'{where} side {si} plane point {pi}: expected {a} got {b}')
            for ax in ('uaxis', 'vaxis'):
                if not _vec_close(ws[ax][:3], gs[ax][:3], 1e-6) or not _close(ws[ax][3], gs[ax][3], 1e-4 + 1e-6 * abs(ws[ax][3])) or ws[ax][4] != gs[ax][4]:
                    return fail('texture-axis', f'{where} side {si} {ax}: expected {ws[ax]} got {gs[ax]}')
            if (ws.get('points') is None) != (gs.get('points') is None):
                return fail('points', f'{where} side {si}: point data present on one side only')
            if ws.get('points') is not None:
                for a, b in zip(ws['points'], gs['points']):
                    if not _vec_close(a, b, 2e-5):
                        return fail('points', f'{where} side {si} point data: expected {a} got {b}')
            if ws.get('disp'):
                wd, gd = ws['disp'], gs['disp']
                if not _vec_close(wd['pos'], gd['pos'], 2e-5):
                    return fail('disp-start', f'{where} side {si}: expected {wd["pos"]} got {gd["pos"]}')
                for vi, (a, b) in enumerate(zip(wd['verts'], gd['verts'])):
                    for fld in ('n', 'o', 'on'):
                        if not _vec_close(a[fld], b[fld], 1e-5):
                            return fail('disp-vertex', f'{where} side {si} vert {vi} {fld}: expected {a[fld]} got {b[fld]}')
                    rest_a = {k: v for k, v in a.items() if k not in ('n', 'o', 'on')}
                    rest_b = {k: v for k, v in b.items() if k not in ('n', 'o', 'on')}
                    if G.diff(rest_a, rest_b) is not None:
                        return fail('disp-vertex', f'{where} side {si} vert {vi}: {rest_a} vs {rest_b}')
            a = {k: v for k, v in ws.items() if k not in ('planes', 'uaxis', 'vaxis', 'points', 'disp')}
            b = {k: v for k, v in gs.items() if k not in ('planes', 'uaxis', 'vaxis', 'points', 'disp')}
            if G.diff(a, b) is not None:
                return fail('side-field', f'{where} side {si}: {G.diff(a, b)}')
        a = {k: v for k, v in w.items() if k != 'sides'}
        b = {k: v for k, v in g.items() if k != 'sides'}
        if G.diff(a, b) is not None:
            return fail('solid-field', f'{where}: {G.diff(a, b)}')

    for bi, (w, g) in enumerate(zip(want['brushes'], got['brushes'])):
        cmp_solid(w, g, f'world brush {bi}')
    for ei, (w, g) in enumerate(zip(want['ents'], got['ents'])):
        if set(w['keys']) != set(g['keys']):
            fail('keys', f'entity {ei} keys {sorted(w["keys"])} vs {sorted(g["keys"])}')
            continue
        for k, (t, val) in w['keys'].items():
            gv = g['keys'][k]
            if t == 'pos':
                try:
                    ok = _vec_close(val, _nums(gv), 4e-6)
                except Exception:
                    ok = False
                if not ok:
                    fail('position-key', f'entity {ei} ({w["keys"]["classname"][1]}) key {k}: expected {val} got {gv!r}')
            elif t == 'negpitch':
                # the light's "pitch" key is the negated pitch of its (rotated) angles
                try:
                    gp = float(gv)
                    ap = _nums(g['keys']['angles'])[0] if 'angles' in g['keys'] else None
                    d = None if ap is None else abs((-gp - ap + 180.0) % 360.0 - 180.0)
                    ok = d is None or d < 1e-3       # without an angles key there is nothing to judge the pitch against
                except Exception:
                    ok = False
                if not ok:
                    fail('pitch-key', f'entity {ei} ({w["keys"]["classname"][1]}) pitch key {gv!r} is not the negated pitch of its angles {g["keys"].get("angles")!r}')
            elif t == 'ang':
                try:
                    gm = ref_matrix(*_nums(gv))
                    # under the engine's gimbal-lock threshold (forward axis within 0.001 of vertical) the conversion to
                    # Euler angles deliberately drops the yaw/roll split: accurate to twice that horizontal length (C04's bound)
                    hlen = math.hypot(val[0][0], val[0][1])
                    tol = 2e-5 + (2.0 * hlen if hlen < 0.001 else 0.0)
                    ok = all(_close(val[i][j], gm[i][j], tol) for i in range(3) for j in range(3))
                except Exception:
                    ok = False
                if not ok:
                    fail('orientation-key', f'entity {ei} ({w["keys"]["classname"][1]}) key {k}: expected matrix {val} got angles {gv!r}')
            elif val != gv:
                fail('other-key', f'entity {ei} key {k}: identity collapse gives {val!r}, placed collapse {gv!r}')
        for bi, (ws, gs) in enumerate(zip(w['solids'], g['solids'])):
            cmp_solid(ws, gs, f'entity {ei} brush {bi}')
        a = {k: v for k, v in w.items() if k not in ('keys', 'solids')}
        b = {k: v for k, v in g.items() if k not in ('keys', 'solids')}
        if G.diff(a, b) is not None:
            fail('entity-field', f'entity {ei}: {G.diff(a, b)}')


def _check_names(out: Outcome, f: InstanceFile, adds: dict, p: dict):
    table = {v.casefold(): val for v, val, _i in p['fixups']}
    visible = [e for e in f.vmf.entities if not e.hidden and e.vis_shown]
    if len(visible) != len(adds['ents']):
        out.violate('name-fixup', 'count', f'template has {len(visible)} visible entities, collapse added {len(adds["ents"])}')
        return
    for te, ne in zip(visible, adds['ents']):
        for k, v in te._keys.items():
            t = KEYTYPES.get(k.casefold())
            if t is None or k.casefold() not in {x.casefold() for x in ne['keys']}:
                continue
            got = next(val for kk, val in ne['keys'].items() if kk.casefold() == k.casefold())
            sub = ref_substitute(table, v)
            if t == 'name':
                want = ref_fixup_name(p['style'], p['name'], sub)
                if got != want:
                    clause = 'substitution' if '$' in v and ref_fixup_name(p['style'], p['name'], v) != got and sub != v else 'name-fixup'
                    out.violate(clause, f'style={p["style"]}|{k.casefold()}', f'{te["classname"]}.{k}={v!r} with instance {p["name"]!r} style {p["style"]} '
                                f'table {table}: expected {want!r}, got {got!r}')
            elif t == 'plain':
                if got != sub:
                    out.violate('substitution', f'plain|{k.casefold()}', f'{te["classname"]}.{k}={v!r} table {table}: expected {sub!r}, got {got!r}')
        for to, no in zip(te.outputs, ne['outputs']):
            want = ref_fixup_name(p['style'], p['name'], ref_substitute(table, to.target))
            if no['target'] != want:
                out.violate('name-fixup', f'style={p["style"]}|output-target', f'output target {to.target!r}: expected {want!r}, got {no["target"]!r}')


# ------------------------------------------------------------------ run
def run(case: dict) -> Outcome:
    out = Outcome()
    if case['mode'] == 'recursive':
        return _run_recursive(case, out)
    texts = []
    try:
        for t in case['templates']:
            texts.append(_template_text(t))
    except Exception as exc:
        out.event('template-build-failed', type(exc).__name__)
        return out
    files = {}
    cache = {}
    target = VMF()
    target.create_ent('logic_relay', targetname='pre_existing')
    per_template = {}
    for k, pi in enumerate(case['steps']):
        p = case['placements'][pi % len(case['placements'])]
        ti = p['t'] % len(texts)
        out.steps += 1
        try:
            if ti not in files:
                files[ti] = _load(texts[ti])
            f = files[ti]
            before = _file_obs(f)
            ne, nb = len(target.entities), len(target.brushes)
            collapse_one(target, _mk_instance(p), f, engine_cache=cache)
            after = _file_obs(f)
        except Exception as exc:
            out.violate('collapse-raised', type(exc).__name__, f'collapse {k} of placement {p} raised {exc!r}')
            break
        per_template[ti] = per_template.get(ti, 0) + 1
        if per_template[ti] > 1:
            out.nontrivial = True
        # (1) template immutability
        df = G.diff(before, after)
        if df is not None:
            pth = G.generic_path(df[0])
            if pth == '/text':
                la, lb = before['text'].split('\n'), after['text'].split('\n')
                i = next((i for i, (x, y) in enumerate(zip(la, lb)) if x != y), 0)
                detail = f'template text line {i + 1}: {la[i]!r} -> {lb[i]!r}'
                key = la[i].strip().split('"')[1] if la[i].count('"') >= 2 else 'structure'
                pth = '/text/' + ('replaceNN' if key.startswith('replace') else key)
            else:
                detail = f'{df[0]}: {df[1]!r} -> {df[2]!r}'
            out.violate('template-modified:' + pth, f'collapse#{min(per_template[ti], 2)}', f'collapsing placement {pi} changed the cached template: {detail}')
        # (1b) nothing mutable is shared between the cached template and what was added to the target, and the IDs of
        #      the target stay unique per kind (the template's IDs start at 1 like the target's)
        if per_template[ti] <= 2:
            from machines.vmf_copy import walk_mutables
            wa = walk_mutables([f.vmf.spawn] + list(f.vmf.entities) + list(f.vmf.brushes))
            wc = walk_mutables(list(target.entities[ne:]) + list(target.brushes[nb:]))
            for key in wa:
                if key in wc:
                    pa, _o = wa[key]
                    pc, ob = wc[key]
                    out.violate('template-aliased:' + G.generic_path(pc or pa), type(ob).__name__,
                                f'{type(ob).__name__} object shared between template{pa} and collapsed copy{pc} (placement {pi})')
                    break
            out.stats['alias_walks'] += 1
        for kind, ids in (('entity', [e.id for e in target.entities]), ('solid', [s.id for e in [target.spawn] + list(target.entities) for s in e.solids] + [s.id for s in target.brushes if s not in target.spawn.solids]),
                          ('face', [sd.id for s in target.brushes for sd in s.sides] + [sd.id for e in target.entities for s in e.solids for sd in s.sides])):
            if len(ids) != len(set(ids)) or any(i <= 0 for i in ids):
                out.violate('ids-not-unique', kind, f'after collapsing placement {pi} the target holds {kind} IDs {sorted(ids)}')
        adds = _additions(target, ne, nb)
        # (4) order independence: same additions as when collapsed alone into a fresh map with a fresh template
        try:
            alone, _t = _collapse_alone(texts[ti], p, {})
        except Exception as exc:
            out.violate('collapse-raised', 'alone|' + type(exc).__name__, repr(exc))
            break
        df = G.diff(_no_node(alone), _no_node(adds))
        if df is not None:
            out.violate('order-dependent', G.generic_path(df[0]), f'placement {pi} collapsed as #{k + 1} of the sequence differs from collapsing it alone at {df[0]}: alone {str(df[1])[:150]!r} sequence {str(df[2])[:150]!r}')
        # (2) placement law against the reference rotation
        if k < 3:
            try:
                ident, _t = _collapse_alone(texts[ti], dict(p, origin=[0.0, 0.0, 0.0], angles=[0.0, 0.0, 0.0]), {})
                want = _transform_additions(ident, ref_matrix(*p['angles']), p['origin'])
                _compare_law(out, want, alone, p)
            except Exception as exc:
                out.violate('collapse-raised', 'identity|' + type(exc).__name__, repr(exc))
            # (3) names and $variables
            _check_names(out, _load(texts[ti]), alone, p)
        out.states.add(f'rot:{p["rot"]}|style:{p["style"]}')
        out.event(k, pi, len(adds['ents']), len(adds['brushes']))
        if out.viol:
            break
    for t in case['templates']:
        for e in t['entities']:
            for s in e['solids']:
                for sd in s.get('sides', []):
                    if 'disp' in sd:
                        out.states.add('tmpl:disp')
                    if 'points' in sd:
                        out.states.add('tmpl:points')
            if e['outputs']:
                out.states.add('tmpl:outputs')
    out.sample = {'templates': [{'file': t['file'], 'classes': [e['keys']['classname'] for e in t['entities']], 'brushes': len(t['brushes'])}
                                for t in case['templates']], 'placements': case['placements'], 'order': case['steps']}
    return out


def _no_node(o):
    if isinstance(o, dict):
        return {k: ('#' if k.casefold() == 'nodeid' else _no_node(v)) for k, v in o.items()}
    if isinstance(o, list):
        return [_no_node(x) for x in o]
    return o


class _Budget(BaseException):
    pass


def _run_recursive(case, out: Outcome):
    shape, br = case['shape'], case['branching']
    ta, tb = dict(case['templates'][0]), dict(case['templates'][1])
    ta['file'], tb['file'] = 'instances/a.vmf', 'instances/b.vmf'

    spell = case.get('spelling', 0)

    def nest(file, n):
        forms = [file, file.upper(), file.replace('/', '\\'), file.title()]
        return [{'file': (forms[spell] if spell < 4 else forms[i % len(forms)]) if spell else file, 'origin': [64.0 * (i + 1), 0.0, 0.0], 'angles': [0.0, 90.0 * i, 0.0],
                 'name': f'n{i}'} for i in range(n)]
    if shape == 'self':
        ta['nested'] = nest('instances/a.vmf', br)
    elif shape == 'mutual':
        ta['nested'] = nest('instances/b.vmf', br)
        tb['nested'] = nest('instances/a.vmf', br)
    else:   # chain: a -> b, no loop (must terminate normally)
        ta['nested'] = nest('instances/b.vmf', br)
    try:
        leaf = VMF()
        leaf.create_ent('info_target', targetname='leaf', origin='1 2 3')
        fsys = VirtualFileSystem({'instances/a.vmf': _template_text(ta), 'instances/b.vmf': _template_text(tb),
                                  'instances/nested.vmf': leaf.export(inc_version=False)})
    except Exception as exc:
        out.event('template-build-failed', type(exc).__name__)
        return out
    vmf = VMF()
    top = nest('instances/a.vmf', 2)
    vmf.create_ent('func_instance', file=top[0]['file'], origin='0 0 0', angles='0 0 0', targetname='top', fixup_style='0')
    vmf.create_ent('func_instance', file=top[1]['file'], origin='512 0 0', angles='0 90 0', targetname='top2', fixup_style='0')
    limit = case['recur_limit'] if shape != 'chain' else None    # a chain must collapse completely: use the default limit
    budget = 2500 if limit is None else max(2500, 4 * (br ** (limit + 1)))
    calls = [0]
    real = instancing.collapse_one

    def counted(*a, **k):
        calls[0] += 1
        if calls[0] > budget:
            raise _Budget()
        return real(*a, **k)
    instancing.collapse_one = counted
    result = 'returned'
    try:
        if limit is None:
            collapse_all(vmf, fsys)
        else:
            collapse_all(vmf, fsys, recur_limit=limit)
    except RecursionError:
        result = 'RecursionError'
    except _Budget:
        result = 'budget'
    except Exception as exc:
        result = 'exc:' + type(exc).__name__
        out.violate('collapse-raised', f'collapse_all|{type(exc).__name__}', f'collapse_all on {shape}/{br} raised {exc!r}')
    finally:
        instancing.collapse_one = real
    out.steps = calls[0]
    out.stats['collapse_one_calls'] += calls[0]
    out.states.add(f'recursion:{shape}|branching={br}|limit={limit}|spelling={spell}|{result}')
    out.event(shape, br, limit, result, calls[0])
    if result == 'budget':
        out.violate('no-termination', f'{shape}|branching={br}|limit={"default" if limit is None else "small"}',
                    f'collapse_all on a {shape}-recursive instance graph with branching {br} (recur_limit={limit}) was still running after {budget} collapse_one calls')
    if shape == 'chain' and result != 'returned':
        out.violate('no-termination', f'chain|{result}', f'non-recursive chain ended with {result}')
    if shape == 'chain' and result == 'returned' and vmf.by_class['func_instance']:
        out.violate('collapse-incomplete', 'chain', 'func_instance entities left after collapse_all')
    if shape == 'chain' and result == 'returned':
        # names follow the (prefix) fixup style of the named top-level instances, through every nesting level
        for e in vmf.entities:
            nm = e['targetname']
            # (an unnamed nested instance stays unnamed when its parent is collapsed and is then auto-named by collapse_all)
            if nm and nm[0] not in '@!' and not (nm.startswith('top-') or nm.startswith('top2-') or nm.startswith('InstanceAuto')):
                out.violate('name-fixup', 'collapse_all|prefix', f'after collapse_all an entity of a template placed by the instances "top"/"top2" (prefix style) is named {nm!r}')
                break
    out.nontrivial = True
    out.sample = {'mode': 'recursive', 'shape': shape, 'branching': br, 'recur_limit': limit, 'result': result, 'collapse_one_calls': calls[0]}
    return out


def simplify(case: dict):
    if case['mode'] != 'one':
        if case.get('branching', 1) > 1 and False:
            yield case
        return
    for ti, t in enumerate(case['templates']):
        for fld in ('entities', 'brushes'):
            for i in range(len(t[fld])):
                t2 = dict(t)
                t2[fld] = t[fld][:i] + t[fld][i + 1:]
                yield dict(case, templates=case['templates'][:ti] + [t2] + case['templates'][ti + 1:])
        for i, e in enumerate(t['entities']):
            if e['outputs']:
                e2 = dict(e, outputs=[])
                t2 = dict(t, entities=t['entities'][:i] + [e2] + t['entities'][i + 1:])
                yield dict(case, templates=case['templates'][:ti] + [t2] + case['templates'][ti + 1:])
            for k in list(e['keys']):
                if k not in ('classname',):
                    e2 = dict(e, keys={kk: vv for kk, vv in e['keys'].items() if kk != k})
                    t2 = dict(t, entities=t['entities'][:i] + [e2] + t['entities'][i + 1:])
                    yield dict(case, templates=case['templates'][:ti] + [t2] + case['templates'][ti + 1:])
            for j, s in enumerate(e['solids']):
                e2 = dict(e, solids=e['solids'][:j] + e['solids'][j + 1:])
                t2 = dict(t, entities=t['entities'][:i] + [e2] + t['entities'][i + 1:])
                yield dict(case, templates=case['templates'][:ti] + [t2] + case['templates'][ti + 1:])
    for pi, p in enumerate(case['placements']):
        if p['fixups']:
            yield dict(case, placements=case['placements'][:pi] + [dict(p, fixups=[])] + case['placements'][pi + 1:])
        if p['angles'] != [0.0, 0.0, 0.0]:
            yield dict(case, placements=case['placements'][:pi] + [dict(p, angles=[0.0, 90.0, 0.0], rot='axis')] + case['placements'][pi + 1:])
            yield dict(case, placements=case['placements'][:pi] + [dict(p, angles=[0.0, 0.0, 0.0], rot='identity')] + case['placements'][pi + 1:])
        if p['origin'] != [0.0, 0.0, 0.0]:
            yield dict(case, placements=case['placements'][:pi] + [dict(p, origin=[0.0, 0.0, 0.0])] + case['placements'][pi + 1:])

"""C19 — all filesystem backends resolve names alike; chains honour priority.

Weak fit for simulation, labelled as such: differential testing of four storage back-ends over
one simulated disk (in-memory dict, zip written with zipfile, VPK written with the library's own
writer, directory tree), with the reference model a dict keyed by folded, slash-normalised names.
The only history is the construction of a chain (add_sys(..., priority=...))."""
from __future__ import annotations

import io
import posixpath
import zipfile

from sim.core import Outcome, Rng
from sim import simfs
from sim.simfs import SimFS

from srctools.filesys import VirtualFileSystem, ZipFileSystem, VPKFileSystem, RawFileSystem, FileSystemChain
from srctools.vpk import VPK

PROP = 'C19'
LEVEL = 'exploration'
RUNS = {'quick': 12000, 'thorough': 800000}
BATCH = {'quick': 200, 'thorough': 2000}
BUDGET_S = {'quick': 60.0, 'thorough': 1200.0}
RULE = ('one run = one seeded file set (nested folders, mixed-case names, names that are string prefixes of others, sibling '
        'folders such as mat / materials) materialised as VirtualFileSystem, zip, VPK and directory tree on the simulated '
        'disk; every name queried in seeded spellings (case changes, both slashes) with in / [] / open_bin; walk_folder for '
        'seeded folders (incl. "", prefix-of-sibling, mixed case, backslash, trailing slash); and a chain built by a seeded '
        'sequence of add_sys(prefix, priority) calls over up to 4 members with overlapping names. Non-trivial: >=2 names '
        'share a string prefix or differ only in case, or the chain has >=2 members with a common name. distinct = distinct '
        'event-log digest.')
STATE_MEASURE = 'distinct (backend, folder class / query class, outcome) triples'
REAL_VS_STUB = {'real': ['VirtualFileSystem, ZipFileSystem, VPKFileSystem, RawFileSystem, FileSystemChain', 'zipfile, srctools.vpk'],
                'stub': ['disk (sim/simfs.py)', 'reference model: dict keyed by folded slash-normalised names']}
ASSUMPTIONS = ['file names within one set are unique case-insensitively (a folding backend cannot hold both)',
               'the directory backend is only queried with exact-case spellings (the host file system decides case sensitivity)',
               'names avoid "." / ".." segments']

FOLDERS = ['', 'materials', 'materials/dev', 'mat', 'Materials2', 'models/props', 'scripts', 'materials/Dev2', 'model']
BASES = ['a', 'file', 'File2', 'readme', 'wall', 'wall_2', 'x']
EXTS = ['vmt', 'vtf', 'txt', 'mdl']
P = simfs.MOUNT + '/fs'


def _gen_names(r: Rng, n: int):
    names, seen = [], set()
    tries = 0
    while len(names) < n and tries < 200:
        tries += 1
        f = r.pick(FOLDERS)
        nm = (f + '/' if f else '') + r.pick(BASES) + '.' + r.pick(EXTS)
        if nm.casefold() in seen:
            continue
        seen.add(nm.casefold())
        names.append(nm)
    return names


def gen(rng: Rng, tier: str, index: int) -> dict:
    r = rng.child('files')
    names = _gen_names(r, r.randrange(1, 9))
    q = rng.child('queries')
    queries = []
    for _ in range(6):
        nm = q.pick(names) if q.chance(0.8) else (q.pick(FOLDERS) + '/' + q.pick(BASES) + '.' + q.pick(EXTS)).lstrip('/')
        style = q.randrange(5)
        if style == 1:
            nm = nm.upper()
        elif style == 2:
            nm = nm.replace('/', '\\')
        elif style == 3:
            nm = nm.swapcase().replace('/', '\\')
        elif style == 4:
            nm = nm.lower()
        queries.append(nm)
    folders = []
    for _ in range(4):
        f = q.pick(FOLDERS + ['materials/', 'MATERIALS', 'materials\\dev', 'models', 'nope', 'm', 'materials/de'])
        folders.append(f)
    c = rng.child('chain')
    members = []
    for i in range(c.randrange(1, 5)):
        shared = []
        if c.chance(0.6):
            nm = c.pick(names)
            shared = [c.pick([nm, nm, nm.upper(), nm.swapcase()])]     # the same file, possibly spelled in another letter case
        members.append({'names': _gen_names(c, c.randrange(1, 5)) + shared,
                        'prefix': c.pick(['', '', 'materials', 'models/props']), 'priority': c.chance(0.3), 'tag': f'm{i}'})
    # the chain's construction history: every member is added once, some are added again later (a search path that
    # mentions one location twice, e.g. to move it to the front)
    adds = [[i, m['prefix'], m['priority']] for i, m in enumerate(members)]
    for _ in range(c.pick([0, 0, 1, 2])):
        i = c.randrange(len(members))
        adds.append([i, c.pick([members[i]['prefix'], members[i]['prefix'], '', 'materials']), c.chance(0.6)])
    return {'names': names, 'queries': queries, 'folders': folders, 'chain': members, 'adds': adds, 'steps': [],
            'zip_dirs': rng.child('zip').chance(0.4), 'zip_label': c.chance(0.35)}


def _fold(name: str) -> str:
    return name.replace('\\', '/').casefold()


def _content(tag: str, name: str) -> bytes:
    return f'{tag}:{name}'.encode()


def _in_folder(name_folded: str, folder: str) -> bool:
    f = _fold(folder).strip('/')
    if f in ('', '.'):
        return True
    return name_folded.startswith(f + '/')


def _folder_class(folder: str, names) -> str:
    f = _fold(folder).strip('/')
    if not f:
        return 'empty'
    cls = []
    if any(_fold(n).startswith(f) and not _fold(n).startswith(f + '/') for n in names):
        cls.append('prefix-of-sibling')
    if folder != folder.casefold():
        cls.append('mixed-case')
    if '\\' in folder:
        cls.append('backslash')
    if folder.endswith('/'):
        cls.append('trailing-slash')
    return '+'.join(cls) or 'plain'


def _build_backends(fs: SimFS, names, tag='f', base=P, zip_dirs=False, zip_label=None):
    files = {n: _content(tag, n) for n in names}
    virt = VirtualFileSystem(dict(files))
    zbuf = io.BytesIO()
    with zipfile.ZipFile(zbuf, 'w') as z:
        made = set()
        for n, data in files.items():
            if zip_dirs:
                # archives written by most tools hold an explicit entry per directory; those are not files
                parts = n.split('/')[:-1]
                for k in range(1, len(parts) + 1):
                    d = '/'.join(parts[:k]) + '/'
                    if d not in made:
                        made.add(d)
                        z.writestr(d, b'')
            z.writestr(n, data)
    fs.put(base + '/pack.zip', zbuf.getvalue())
    if zip_label:
        # an archive that is already open, given a display label rather than a path on disk
        zfs = ZipFileSystem(zip_label, zipfile.ZipFile(io.BytesIO(zbuf.getvalue())))
    else:
        zfs = ZipFileSystem(base + '/pack.zip')
    vp = VPK(base + '/pak01_dir.vpk', mode='w')
    for n, data in files.items():
        vp.add_file(n, data)
    vp.write_dirfile()
    vfs = VPKFileSystem(base + '/pak01_dir.vpk')
    for n, data in files.items():
        fs.put(base + '/tree/' + n, data)
    rfs = RawFileSystem(base + '/tree')
    return files, {'virtual': virt, 'zip': zfs, 'vpk': vfs, 'raw': rfs}


def run(case: dict) -> Outcome:
    out = Outcome()
    fs = SimFS()
    fs.put_dir(P)
    names = case['names']
    folded_names = [_fold(n) for n in names]
    if any(a != b and (a.startswith(b) or b.startswith(a)) for a in folded_names for b in folded_names) or \
            any(a.split('/')[0] != b.split('/')[0] and a.split('/')[0].startswith(b.split('/')[0]) for a in folded_names for b in folded_names):
        out.nontrivial = True
    with fs:
        try:
            files, backends = _build_backends(fs, names, zip_dirs=case.get('zip_dirs', False))
        except Exception as exc:
            out.violate('build-raised', type(exc).__name__, f'building the four backends raised {exc!r} for {names}')
            return out
        ref = {_fold(n): data for n, data in files.items()}
        # ---- lookups
        for q in case['queries']:
            out.steps += 1
            want = ref.get(_fold(q))
            exact = q in files
            for bname, b in backends.items():
                if bname == 'raw' and not exact and want is not None:
                    continue   # directory backend: exact-case spellings only
                if bname == 'raw' and '\\' in q and want is not None and not exact:
                    continue
                try:
                    present = q in b
                except Exception as exc:
                    out.violate('exists-disagree', f'{bname}|raised|{type(exc).__name__}', f'{q!r} in {bname} raised {exc!r}')
                    continue
                if present != (want is not None):
                    out.violate('exists-disagree', f'{bname}|{_query_class(q)}', f'{q!r} in {bname} backend is {present}, reference says {want is not None} (files {names})')
                    continue
                got = None
                try:
                    f = b[q]
                    with f.open_bin() as fh:
                        got = fh.read()
                    with b.open_bin(q) as fh:
                        got2 = fh.read()
                except FileNotFoundError:
                    got = got2 = None
                except Exception as exc:
                    out.violate('bytes-disagree', f'{bname}|raised|{type(exc).__name__}', f'{bname}[{q!r}] raised {exc!r}')
                    continue
                if got != want or got2 != want:
                    out.violate('bytes-disagree', f'{bname}|{_query_class(q)}', f'{bname}[{q!r}] gives {got!r} / open_bin {got2!r}, reference {want!r}')
                out.states.add(f'{bname}|lookup|{_query_class(q)}|{"hit" if want is not None else "miss"}')
        # ---- walks
        for folder in case['folders'] + ['']:
            out.steps += 1
            fcls = _folder_class(folder, names)
            want = sorted(k for k in ref if _in_folder(k, folder))
            for bname, b in backends.items():
                if bname == 'raw' and (folder != folder.casefold() and _fold(folder).strip('/') not in {f.casefold() for f in FOLDERS if f == f.casefold()}):
                    # the directory backend resolves the folder on the (case-sensitive) simulated disk
                    pass
                if bname == 'raw':
                    exact_dirs = {posixpath.dirname(n) for n in names} | {''}
                    parts = set()
                    for d in exact_dirs:
                        while d:
                            parts.add(d)
                            d = posixpath.dirname(d)
                    if folder.replace('\\', '/').strip('/') not in parts | {''}:
                        continue   # not an exact-case existing folder: host-defined
                    if '\\' in folder:
                        continue
                try:
                    listed = list(b.walk_folder(folder))
                except Exception as exc:
                    if bname == 'raw' and isinstance(exc, FileNotFoundError):
                        continue
                    out.violate('walk-extra', f'{bname}|raised|{type(exc).__name__}', f'{bname}.walk_folder({folder!r}) raised {exc!r}')
                    continue
                got = sorted(_fold(f.path) for f in listed)
                extra = [g for g in got if g not in want]
                missing = [w for w in want if w not in got]
                out.states.add(f'{bname}|walk|{fcls}|{"ok" if not extra and not missing else "diff"}')
                if extra:
                    out.violate('walk-extra', f'{bname}|{fcls}', f'{bname}.walk_folder({folder!r}) lists {extra} which are not inside that folder (files {names})')
                if missing:
                    out.violate('walk-missing', f'{bname}|{fcls}', f'{bname}.walk_folder({folder!r}) misses {missing} (lists {got}; files {names})')
                if len(got) != len(set(got)):
                    out.violate('walk-extra', f'{bname}|duplicates', f'{bname}.walk_folder({folder!r}) lists a name twice: {got}')
                for f in listed:
                    try:
                        with b[f.path].open_bin() as fh:
                            data = fh.read()
                        with f.open_bin() as fh:
                            data2 = fh.read()
                    except Exception as exc:
                        out.violate('walk-unopenable', f'{bname}|{type(exc).__name__}', f'{bname}: listed name {f.path!r} cannot be looked up/opened: {exc!r}')
                        continue
                    if data != ref.get(_fold(f.path)) or data2 != data:
                        out.violate('walk-unopenable', f'{bname}|wrong-bytes', f'{bname}: listed name {f.path!r} yields {data!r}')
            # __iter__ == walk_folder('')
        for bname, b in backends.items():
            try:
                it = sorted(_fold(f.path) for f in b)
            except Exception as exc:
                out.violate('walk-missing', f'{bname}|iter-raised', repr(exc))
                continue
            if it != sorted(ref):
                out.violate('walk-missing' if len(it) < len(ref) else 'walk-extra', f'{bname}|iter', f'iterating {bname} lists {it}, reference {sorted(ref)}')
        # ---- chain
        _check_chain(out, fs, case)
    out.event(names, case['queries'], case['folders'], [(m['names'], m['prefix'], m['priority']) for m in case['chain']])
    out.sample = {k: case[k] for k in ('names', 'queries', 'folders', 'chain')}
    return out


def _query_class(q: str) -> str:
    cls = []
    if '\\' in q:
        cls.append('backslash')
    if q != q.casefold():
        cls.append('mixed-case')
    return '+'.join(cls) or 'folded'


def _visible(members, i, prefix):
    res = {}
    pf = _fold(prefix).strip('/')
    for k, d in members[i].items():
        if not pf:
            res[k] = d
        elif k.startswith(pf + '/'):
            res[k[len(pf) + 1:]] = d
    return res


def _probe_chain(out: Outcome, chain, order, members, stage):
    expect = {}
    for i, prefix in order:
        for k, d in _visible(members, i, prefix).items():
            expect.setdefault(k, d)
    for q in sorted(expect)[:12]:
        spelled = q.upper() if stage % 2 else q
        try:
            with chain[spelled].open_bin() as fh:
                got = fh.read()
        except FileNotFoundError:
            got = None
        except Exception as exc:
            out.violate('chain-priority', f'raised|{type(exc).__name__}', f'chain[{spelled!r}] raised {exc!r} while the chain was being built')
            return
        out.stats['chain_probes_between_adds'] += 1
        if got != expect[q]:
            out.violate('chain-priority', f'during-construction|{len(order)}-members',
                        f'after {stage} add_sys calls chain[{spelled!r}] gives {got!r}, the first member that has it holds {expect[q]!r}; order {order}')
            return


def _check_chain(out: Outcome, fs: SimFS, case: dict):
    chain = FileSystemChain()
    order = []      # reference: list of (member index, prefix)
    members = []
    objs = []
    kinds = ['virtual', 'zip', 'vpk', 'virtual']
    for i, m in enumerate(case['chain']):
        uniq = []
        for n in m['names']:
            if _fold(n) not in {_fold(x) for x in uniq}:
                uniq.append(n)
        try:
            files, backends = _build_backends(fs, uniq, tag=m['tag'], base=f'{P}/c{i}', zip_dirs=case.get('zip_dirs', False),
                                              zip_label='embedded.zip' if case.get('zip_label') else None)
        except Exception as exc:
            out.violate('build-raised', 'chain|' + type(exc).__name__, repr(exc))
            return
        kind = 'zip' if case.get('zip_label') and i < 3 else kinds[i % len(kinds)]
        objs.append(backends[kind])
        members.append({_fold(n): d for n, d in files.items()})
    adds = case.get('adds')
    if adds is None:
        adds = [[i, m['prefix'], m['priority']] for i, m in enumerate(case['chain'])]
    seen_members = set()
    for i, prefix, priority in adds:
        if i >= len(objs):
            continue
        if i in seen_members:
            out.stats['chain_readd'] += 1
        seen_members.add(i)
        chain.add_sys(objs[i], prefix, priority=priority)
        if priority:
            order.insert(0, (i, prefix))
        else:
            order.append((i, prefix))
        # the chain is used while it is being built (a lookup now must not pin an answer that a later member overrides)
        if case.get('probe_between', True):
            _probe_chain(out, chain, order, members, len(order))
    if len(order) >= 2:
        allnames = [set(x) for x in members]
        if any(allnames[a] & allnames[b] for a in range(len(allnames)) for b in range(a + 1, len(allnames))):
            out.nontrivial = True

    def visible(i, prefix):
        """name as seen through the chain -> bytes, for one member"""
        res = {}
        pf = _fold(prefix).strip('/')
        for k, d in members[i].items():
            if not pf:
                res[k] = d
            elif k.startswith(pf + '/'):
                res[k[len(pf) + 1:]] = d
        return res
    expect = {}
    for i, prefix in order:
        for k, d in visible(i, prefix).items():
            expect.setdefault(k, d)
    # every name of every member, queried relative to its prefix, plus misses
    queries = sorted(expect) + ['nope/none.txt']
    for q in queries:
        out.steps += 1
        want = expect.get(q)
        try:
            with chain[q].open_bin() as fh:
                got = fh.read()
        except FileNotFoundError:
            got = None
        except Exception as exc:
            out.violate('chain-priority', f'raised|{type(exc).__name__}', f'chain[{q!r}] raised {exc!r}')
            continue
        if got != want:
            clause = 'chain-prefix' if any(p for _, p in order) and (got is None or want is None) else 'chain-priority'
            out.violate(clause, f'{len(order)}-members', f'chain[{q!r}] gives {got!r}, the first member that has it holds {want!r}; order {order} members {case["chain"]}')
        if (q in chain) != (want is not None):
            out.violate('chain-priority', 'contains', f'{q!r} in chain is {q in chain}')
    try:
        walked = [_fold(f.path) for f in chain.walk_folder('')]
    except Exception as exc:
        out.violate('chain-duplicate', f'walk-raised|{type(exc).__name__}', f'chain.walk_folder("") raised {exc!r}')
        return
    if len(walked) != len(set(walked)):
        out.violate('chain-duplicate', 'walk', f'chain walk lists a name twice: {sorted(walked)}')
    if sorted(set(walked)) != sorted(expect):
        extra = sorted(set(walked) - set(expect))
        missing = sorted(set(expect) - set(walked))
        out.violate('chain-prefix' if any(p for _, p in order) else 'chain-priority', 'walk-set',
                    f'chain walk lists {sorted(set(walked))}; expected {sorted(expect)} (extra {extra}, missing {missing}); order {order}')
    else:
        for f in chain.walk_folder(''):
            try:
                with f.open_bin() as fh:
                    data = fh.read()
            except Exception as exc:
                out.violate('walk-unopenable', f'chain|{type(exc).__name__}', f'chain walk entry {f.path!r} cannot be opened: {exc!r}')
                continue
            if data != expect.get(_fold(f.path)):
                out.violate('chain-priority', 'walk-bytes', f'chain walk entry {f.path!r} yields {data!r}, expected {expect.get(_fold(f.path))!r}')
    out.states.add(f'chain|{len(order)}|{"prefix" if any(p for _, p in order) else "noprefix"}')


SHRINK_LISTS = ('queries', 'folders', 'adds', 'names')


def simplify(case: dict):
    if case.get('zip_dirs'):
        yield dict(case, zip_dirs=False)
    if case.get('zip_label'):
        yield dict(case, zip_label=False)
    for i, m in enumerate(case['chain']):
        if m['prefix']:
            yield dict(case, chain=case['chain'][:i] + [dict(m, prefix='')] + case['chain'][i + 1:])
        if m['priority']:
            yield dict(case, chain=case['chain'][:i] + [dict(m, priority=False)] + case['chain'][i + 1:])
        for k in range(len(m['names'])):
            yield dict(case, chain=case['chain'][:i] + [dict(m, names=m['names'][:k] + m['names'][k + 1:])] + case['chain'][i + 1:])

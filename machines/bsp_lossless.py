"""C10 — saving an unmodified BSP is lossless whichever lumps were looked at.

History machine on the simulated disk: a given file A (synthesised through the library from a
hand-packed minimal map, optionally re-packed by an independent container codec with LZMA
lumps / game lumps / L4D2 header order; or the sample map under tests/), then a seeded history
of view accesses in a seeded order, helper calls that touch views indirectly, save, save to
another path, reopen and drop-and-collect steps.  The oracle compares A with the result B using
the independent container decoder (header fields, raw lumps) and the library's own reader on
fresh objects (parsed views), and checks that a further save changes nothing."""
from __future__ import annotations

import gc
import os

from sim.core import Outcome, Rng, REPO
from sim import simfs
from sim.simfs import SimFS
from sim.refmodels import bspcontainer as C
from machines import bspgen as G
from machines.vmfgen import diff, generic_path

from srctools import bsp as B
from srctools.bsp import BSP, BSP_LUMPS as L

PROP = 'C10'
LEVEL = 'exploration'
RUNS = {'quick': 3000, 'thorough': 250000}
BATCH = {'quick': 50, 'thorough': 500}
BUDGET_S = {'quick': 80.0, 'thorough': 1500.0}
RULE = ('one run = one input file (committed corpus: minimal maps v19/20/21 and INFRA v22 / Chaos v25 / VitaminSource v43 layouts populated with a seeded subset of value groups through the library, '
        'optionally re-packed with LZMA-compressed lumps / game lumps / L4D2 header order by an independent codec; 1 run in 80 '
        'uses tests/test_vec/rot_main.bsp) and a seeded history of: access(view) for a seeded subset and order of the 21 views '
        '(biased to 1-3 views), indirect helpers, save, save-as, reopen, drop-and-collect. Non-trivial: >=1 view accessed '
        'before a save. distinct = distinct event-log digest.')
STATE_MEASURE = 'distinct (container variant, accessed-view set) pairs; views first parsed during save()'
REAL_VS_STUB = {'real': ['srctools.bsp.BSP.read/save, ParsedLump, all lump readers/writers, binformat LZMA', 'AtomicWriter'],
                'stub': ['disk (sim/simfs.py)', 'independent container codec (input variants + decoding of the result)']}
ASSUMPTIONS = ['inputs other than the sample map are produced by the library\'s own writers from generated values (C11 decides those writers)',
               'parsed views are compared through the library reader on fresh objects in one fixed access order',
               'the entity lump / pakfile / string tables are compared as parsed content, not bytes',
               'a view whose parse fails (poisoned inputs) is only required to leave its lumps byte-identical']

POISON = ['PLANES', 'TEXINFO', 'TEXDATA', 'VERTEXES', 'EDGES', 'SURFEDGES', 'FACES', 'ORIGINALFACES', 'BRUSHES', 'BRUSHSIDES', 'NODES', 'LEAFS', 'CUBEMAPS',
          'OVERLAYS', 'LEAFWATERDATA', 'MODELS', 'PRIMITIVES', 'ENTITIES', 'game:prps:version', 'game:prps', 'game:prpd']
POISON_VIEWS = {'PLANES': 'planes', 'TEXINFO': 'texinfo', 'TEXDATA': 'texinfo', 'VERTEXES': 'vertexes', 'EDGES': 'surfedges', 'SURFEDGES': 'surfedges', 'FACES': 'faces',
                'ORIGINALFACES': 'orig_faces', 'BRUSHES': 'brushes', 'BRUSHSIDES': 'brushes', 'NODES': 'nodes', 'LEAFS': 'visleafs', 'CUBEMAPS': 'cubemaps',
                'OVERLAYS': 'overlays', 'LEAFWATERDATA': 'water_leaf_info', 'MODELS': 'bmodels', 'PRIMITIVES': 'primitives', 'ENTITIES': 'ents',
                'game:prps:version': 'props', 'game:prps': 'props', 'game:prpd': 'detail_props'}
HELPERS = ['vis_tree', 'static_prop_models', 'is_cordoned_heuristic', 'static_props', 'read_texture_names']
_SAMPLE = None


def gen(rng: Rng, tier: str, index: int) -> dict:
    r = rng.child('cfg')
    sample = r.chance(1 / 80)
    version = r.pick([19, 20, 21, 21])
    groups = [g for g in G.ALL_GROUPS if r.chance(0.6)]
    corpus = _corpus_index()
    case = {
        'corpus': r.pick(corpus)['file'] if corpus and not sample and r.chance(0.75) else None,
        'sample': sample, 'version': version, 'l4d2': version == 21 and r.chance(0.3), 'groups': groups, 'value_seed': r.randrange(1 << 40),
        'compress': sorted(r.sample(range(64), r.randrange(1, 12))) if r.chance(0.4) else [],
        'compress_game': r.pick([[], [], ['prps'], ['prps', 'prpd'], ['prpd']]),
        'steps': [],
    }
    if case['corpus'] and rng.child('poison').chance(0.12):
        # a lump this library cannot parse (a record cut short, an unknown static prop version, a nested entity block):
        # the caller looks at the view, catches the error, and saves
        case['poison'] = rng.child('poison2').pick(POISON)
    h = rng.child('hist')
    nviews = h.pick([0, 1, 1, 1, 2, 2, 3, 3, 5, 8, 21])
    views = h.sample(G.VIEWS, min(nviews, len(G.VIEWS)))
    steps = [['access', v] for v in views]
    if h.chance(0.25):
        steps.insert(h.randrange(len(steps) + 1), ['helper', h.pick(HELPERS)])
    if h.chance(0.15):
        steps.insert(h.randrange(len(steps) + 1), ['collect'])
    steps.append(['save'] if h.chance(0.8) else ['save_as'])
    for _ in range(h.pick([0, 0, 1, 2])):
        k = h.random()
        if k < 0.4:
            steps.append(['reopen'])
        elif k < 0.7:
            steps.append(['access', h.pick(G.VIEWS)])
        else:
            steps.append(['save'])
    if steps[-1][0] not in ('save', 'save_as'):
        steps.append(['save'])
    case['steps'] = steps
    return case


_CORPUS = None


def _corpus_index():
    global _CORPUS
    if _CORPUS is None:
        import json
        from sim.core import VERIF
        try:
            with open(os.path.join(VERIF, 'corpus', 'bsp', 'INDEX.json')) as f:
                _CORPUS = json.load(f)
        except OSError:
            _CORPUS = []
    return _CORPUS


def _input_blob(case) -> bytes:
    global _SAMPLE
    if case.get('corpus'):
        from sim.core import VERIF
        with open(os.path.join(VERIF, 'corpus', 'bsp', case['corpus']), 'rb') as f:
            blob = f.read()
        if case['compress'] or case['compress_game']:
            blob = G.repack(blob, compress=set(case['compress']), compress_game={g.encode() for g in case['compress_game']})
        return blob
    if case['sample']:
        if _SAMPLE is None:
            with open(os.path.join(REPO, 'tests', 'test_vec', 'rot_main.bsp'), 'rb') as f:
                _SAMPLE = f.read()
        return _SAMPLE
    path = simfs.MOUNT + '/build/in.bsp'
    fs = SimFS()
    fs.put(path, G.make_skeleton(version=case['version'], l4d2=case['l4d2']))
    with fs:
        b = BSP(path)
        G.populate(b, Rng(case['value_seed']), set(case['groups']))
        b.save()
    blob = fs.get(path)
    if case['compress'] or case['compress_game']:
        blob = G.repack(blob, compress=set(case['compress']), compress_game={g.encode() for g in case['compress_game']})
    return blob


def _poison(blob: bytes, what: str):
    """Returns (blob, key) where key identifies the damaged lump (int index or game lump id), or (blob, None)."""
    c = C.read_container(blob)
    lumps = {idx: dict(l) for idx, l in c['lumps'].items() if idx != C.GAME_LUMP}
    games = [dict(g) for g in c['game_lumps']]
    key = None
    if what.startswith('game:'):
        gid = what.split(':')[1].encode()
        for g in games:
            if g['id'] == gid and len(g['data']) > 12:
                if what.endswith(':version'):
                    g['version'] = 14
                else:
                    g['data'] = g['data'][:-3]
                key = gid
    elif what == 'ENTITIES':
        lumps[L.ENTITIES.value]['data'] = b'{\n"classname" "worldspawn"\n{\n"nested" "block"\n}\n}\n\x00'
        key = L.ENTITIES.value
    else:
        idx = L[what].value
        if len(lumps[idx]['data']) > 1:
            lumps[idx]['data'] = lumps[idx]['data'][:-1]
            key = idx
    if key is None:
        return blob, None
    return C.write_container(c['version'], c['revision'], lumps, games, l4d2=c['l4d2'], magic=c['magic']), key


def _lump_name(idx):
    try:
        return L(idx).name
    except ValueError:
        return str(idx)


def _compare_containers(out: Outcome, a: dict, b: dict, accessed: set, tag: str, variant: str, keep=None):
    culprit = f'{variant}|{"+".join(sorted(accessed)) or "none"}'
    if keep is not None:
        if isinstance(keep, int):
            da, db = a['lumps'][keep]['data'], b['lumps'][keep]['data']
            nm = _lump_name(keep)
        else:
            da = next((g['data'] for g in a['game_lumps'] if g['id'] == keep), None)
            db = next((g['data'] for g in b['game_lumps'] if g['id'] == keep), None)
            nm = 'game-' + keep.decode()
        if da != db:
            out.violate('lump-lost-after-failed-parse:' + nm, culprit,
                        f'{tag}: the view of lump {nm} could not be parsed (the error was caught); the lump had {len(da or b"")} bytes and has '
                        f'{len(db or b"")} after the save')
    if (a['version'], a['revision'], a['magic'], a['l4d2']) != (b['version'], b['revision'], b['magic'], b['l4d2']):
        out.violate('header-changed', culprit, f'{tag}: version/revision/magic/order {a["version"], a["revision"], a["magic"], a["l4d2"]} -> '
                    f'{b["version"], b["revision"], b["magic"], b["l4d2"]}')
    for idx in range(C.LUMP_COUNT):
        if idx == C.GAME_LUMP:
            continue
        la, lb = a['lumps'][idx], b['lumps'][idx]
        name = _lump_name(idx)
        if la['version'] != lb['version']:
            out.violate('header-changed', f'lump-version|{name}|{culprit}', f'{tag}: lump {name} version {la["version"]} -> {lb["version"]}')
        if la['compressed'] != lb['compressed'] and la['data'] and idx != C.PAKFILE:
            out.violate('header-changed', f'lump-compression|{name}|{culprit}', f'{tag}: lump {name} compressed flag {la["compressed"]} -> {lb["compressed"]}')
        if la['data'] != lb['data']:
            if idx in G.STRUCTURED and accessed:
                if la['data'] and not lb['data']:
                    out.violate('lump-emptied:' + name, culprit, f'{tag}: lump {name} had {len(la["data"])} bytes and is empty after the save')
                continue      # structured lump: judged on parsed content
            out.violate('raw-lump-changed:' + name, culprit, f'{tag}: lump {name} ({len(la["data"])} bytes) differs after the save ({len(lb["data"])} bytes)')
    ga = {g['id']: g for g in a['game_lumps']}
    gb = {g['id']: g for g in b['game_lumps']}
    if list(ga) != list(gb):
        out.violate('header-changed', f'game-lump-table|{culprit}', f'{tag}: game lumps {list(ga)} -> {list(gb)}')
    for gid in ga:
        if gid not in gb:
            continue
        x, y = ga[gid], gb[gid]
        if (x['flags'], x['version']) != (y['flags'], y['version']):
            out.violate('header-changed', f'game-lump-flags|{gid.decode()}|{culprit}', f'{tag}: game lump {gid} flags/version {x["flags"], x["version"]} -> {y["flags"], y["version"]}')
        if x['data'] != y['data']:
            structured = gid in (b'prps', b'prpd')
            if structured and accessed:
                if x['data'] and len(y['data']) <= 12 < len(x['data']):
                    out.violate('lump-emptied:game-' + gid.decode(), culprit, f'{tag}: game lump {gid} lost its content')
                continue
            out.violate('raw-lump-changed:game-' + gid.decode(), culprit, f'{tag}: game lump {gid} differs after the save')


def run(case: dict) -> Outcome:
    out = Outcome()
    try:
        blob_a = _input_blob(case)
    except Exception as exc:
        out.event('input-build-failed', type(exc).__name__, str(exc)[:200])
        out.stats['input_build_failed'] += 1
        return out
    if case.get('corpus'):
        meta = next((m for m in _corpus_index() if m['file'] == case['corpus']), {'version': '?', 'l4d2': False})
        variant = f'corpus-v{meta["version"]}' + ('|l4d2' if meta['l4d2'] else '')
    else:
        variant = ('sample' if case['sample'] else f'v{case["version"]}') + ('|l4d2' if case['l4d2'] else '')
    variant = variant + ('|lzma' if case['compress'] else '') + \
        ('|lzma-game' if case['compress_game'] else '')
    poisoned = None
    if case.get('poison'):
        try:
            blob_a, poisoned = _poison(blob_a, case['poison'])
        except Exception as exc:
            out.event('poison-failed', type(exc).__name__)
            poisoned = None
        if poisoned is not None:
            variant += '|poison:' + case['poison']
    failed_views = set()
    path = simfs.MOUNT + '/maps/a.bsp'
    other = simfs.MOUNT + '/maps/copy/b.bsp'
    fs = SimFS()
    fs.put(path, blob_a)
    cont_a = C.read_container(blob_a)
    accessed = set()
    cur_path = path
    with fs:
        # reference observation of A (fresh object, canonical order)
        try:
            ref = G.observe_all(BSP(path))
        except Exception as exc:
            out.event('input-unreadable', type(exc).__name__)
            out.stats['input_unreadable'] += 1
            return out
        try:
            b = BSP(path)
        except Exception as exc:
            out.violate('read-raised', type(exc).__name__, f'BSP() raised {exc!r}')
            return out
        saves = 0
        since_open = set()
        for si, st in enumerate(case['steps']):
            out.steps += 1
            op = st[0]
            try:
                if op == 'access':
                    if poisoned is not None:
                        try:
                            getattr(b, st[1])
                        except Exception as exc:
                            failed_views.add(st[1])         # the caller catches it and carries on
                            out.stats['poisoned_view_access_raised'] += 1
                            out.event(si, 'access-raised', st[1], type(exc).__name__)
                            continue
                    else:
                        getattr(b, st[1])
                    accessed.add(st[1])
                    since_open.add(st[1])
                elif op == 'helper' and poisoned is not None:
                    # on a damaged file a helper may fail like the view it reads; the caller catches that too
                    h = st[1]
                    try:
                        getattr(b, h)() if h not in ('static_prop_models', 'static_props', 'read_texture_names') else list(getattr(b, h)())
                    except Exception as exc:
                        failed_views.add('helper:' + h)
                        out.event(si, 'helper-raised', h, type(exc).__name__)
                        continue
                    accessed.add('helper:' + h)
                elif op == 'helper':
                    h = st[1]
                    out.stats['helper_calls'] += 1
                    if h == 'vis_tree':
                        b.vis_tree()
                        accessed.add('nodes')
                    elif h == 'static_prop_models':
                        try:
                            list(b.static_prop_models())
                        except Exception:
                            # reads the raw game lump, which is gone once `props` was parsed: an API wart outside the statement
                            out.stats['helper_raised'] += 1
                    elif h == 'is_cordoned_heuristic':
                        b.is_cordoned_heuristic()
                        accessed.add('helper:cordon')
                    elif h == 'static_props':
                        list(b.static_props())
                        accessed.add('props')
                    elif h == 'read_texture_names':
                        list(b.read_texture_names())
                        accessed.add('textures')
                    since_open.add('helper:' + h)
                elif op == 'collect':
                    gc.collect()
                elif op in ('save', 'save_as'):
                    parsed_before = set(b._parsed_lumps)
                    try:
                        if op == 'save_as':
                            b.save(other)
                            cur_path = other
                        else:
                            b.save(cur_path if cur_path != path else None)
                    except Exception:
                        if poisoned is None:
                            raise
                        # a writer needed the unparseable view: the save is refused, nothing was written (C12's business)
                        out.stats['poisoned_save_refused'] += 1
                        break
                    saves += 1
                    if accessed:
                        out.nontrivial = True
                    out.stats['saves'] += 1
                    out.stats['views_first_parsed_during_save'] += len(set(b._parsed_lumps) - parsed_before)
                    # judge the file now on disk
                    blob_b = fs.get(cur_path)
                    cont_b = C.read_container(blob_b)
                    _compare_containers(out, cont_a, cont_b, accessed | failed_views, f'after save #{saves} (step {si})', variant,
                                        keep=poisoned if failed_views else None)
                    if failed_views:
                        out.stats['saves_after_failed_parse'] += 1
                    obs_b = G.observe_all(BSP(cur_path))
                    d = diff(ref, obs_b, tol_default=0.0)
                    if d is not None:
                        view = d[0].strip('/').split('/')[0].split('[')[0]
                        out.violate('view-changed:' + view, f'{variant}|{"+".join(sorted(accessed)) or "none"}|{generic_path(d[0])}',
                                    f'after save #{saves} with views {sorted(accessed)} accessed: {d[0]}: original {str(d[1])[:150]!r} -> saved {str(d[2])[:150]!r}')
                    # a leftover parsed view whose raw lump is empty would be lost by the next save
                    for key, val in b._parsed_lumps.items():
                        out.violate('lump-emptied:left-parsed', f'{variant}|{getattr(key, "name", key)}', f'view {key} still cached as parsed after save()')
                elif op == 'reopen':
                    b = BSP(cur_path)
                    since_open = set()
            except Exception as exc:
                out.violate('save-raised' if op.startswith('save') else 'op-raised', f'{op}|{type(exc).__name__}|{variant}|{"+".join(sorted(since_open))[:80]}',
                            f'step {si} {st} raised {exc!r}; accessed {sorted(accessed)}')
                break
            if out.viol:
                break
        # saving the result again (fresh object, nothing accessed) changes nothing
        if not out.viol and saves:
            try:
                blob_b = fs.get(cur_path)
                b3 = BSP(cur_path)
                b3.save()
                blob_c = fs.get(cur_path)
                ca, cb = C.read_container(blob_b), C.read_container(blob_c)
                for idx in range(C.LUMP_COUNT):
                    if idx != C.GAME_LUMP and ca['lumps'][idx]['data'] != cb['lumps'][idx]['data']:
                        out.violate('second-save-differs', f'{variant}|{_lump_name(idx)}', f'saving the saved file again changed lump {_lump_name(idx)}')
                if [(g['id'], g['flags'], g['version'], g['data']) for g in ca['game_lumps']] != [(g['id'], g['flags'], g['version'], g['data']) for g in cb['game_lumps']]:
                    out.violate('second-save-differs', f'{variant}|game-lumps', 'saving the saved file again changed the game lumps')
            except Exception as exc:
                out.violate('save-raised', f'second|{type(exc).__name__}|{variant}', f'second save raised {exc!r}')
    out.states.add(f'{variant}|{"+".join(sorted(accessed))}')
    out.event(variant, case['steps'], sorted(accessed), saves)
    out.sample = {'variant': variant, 'groups': case['groups'], 'steps': case['steps'], 'accessed': sorted(accessed)}
    return out


def simplify(case: dict):
    if case['compress']:
        yield dict(case, compress=[])
        for i in range(len(case['compress'])):
            yield dict(case, compress=case['compress'][:i] + case['compress'][i + 1:])
    if case['compress_game']:
        yield dict(case, compress_game=[])
    if case['l4d2']:
        yield dict(case, l4d2=False)
    if not case['sample']:
        for i in range(len(case['groups'])):
            yield dict(case, groups=case['groups'][:i] + case['groups'][i + 1:])

"""C05 — Angle stays in [0,360), frozen values never change, text form is canonical.

Honest label: there is no seam and no fault here.  The property quantifies over *histories* and
the failures it is about arise only along multi-step computations (values produced by
to_angle(), @=, transform() ...), which is what a seeded operation search over an object pool
with invariants evaluated after every step explores.  Claimed on that basis and at that strength."""
from __future__ import annotations

import copy
import math
import pickle
import warnings
import re

from sim.core import Outcome, Rng

from srctools.math import Vec, FrozenVec, Angle, FrozenAngle, Matrix, FrozenMatrix

PROP = 'C05'
LEVEL = 'exploration'
RUNS = {'quick': 40000, 'thorough': 15000000}
BATCH = {'quick': 500, 'thorough': 5000}
BUDGET_S = {'quick': 60.0, 'thorough': 1500.0}
RULE = ('one run = one seeded history (4-40 operations) over a pool of up to 12 Vec / FrozenVec / Angle / FrozenAngle / Matrix / '
        'FrozenMatrix objects: constructor forms, setters, *=, @, @=, reflected @ with tuples, transform() blocks, to_angle(), '
        'from_basis, from_str, copy / deepcopy / pickle, freeze / thaw, str / format / join, vector arithmetic; operands are '
        'taken from the pool the operations also write to; seeds include tiny negatives, exact multiples of 360 and values '
        'within 1e-12..1e-3 of the poles. Invariants (range, frozen snapshots, copy independence, canonical text, parse-back) are '
        'evaluated after every step. Non-trivial: >=2 dependent operations (a result used as an operand). distinct = distinct '
        'event-log digest.')
STATE_MEASURE = 'distinct (operation, operand types, value class) triples executed'
REAL_VS_STUB = {'real': ['srctools.math Py_Vec / Py_FrozenVec / Py_Angle / Py_FrozenAngle / Py_Matrix / Py_FrozenMatrix, format_float, parse_vec_str'],
                'stub': ['the caller (operation script)'], 'not_reached': ['srctools._math (Cython)']}
ASSUMPTIONS = ['Python twin only', 'finite inputs; operations that overflow to inf/nan end the judged part of a run',
               'angle text is parsed back modulo 360 (359.9999999 prints as "360", which denotes the same direction as 0)']

SEEDS = [0.0, 1.0, -1.0, 90.0, -90.0, 180.0, 270.0, 360.0, 720.0, -360.0, 45.0, 1e-14, -1e-14, -1e-9, 1e-9, -5e-7, 4.9e-7, 359.9999999, 359.9999996,
         90 - 1e-12, 90 + 1e-9, 89.999, 90.001, -89.9999999, 1e6, -123456.789, 0.1, 1 / 3, 1e-7, 12345.678901]
TYPES = ['Vec', 'FrozenVec', 'Angle', 'FrozenAngle', 'Matrix', 'FrozenMatrix']
OPS = ['new', 'new', 'from_str', 'copy', 'deepcopy', 'pickle', 'freeze', 'thaw', 'set_axis', 'setitem', 'imul', 'mul', 'matmul', 'matmul', 'imatmul',
       'imatmul', 'rmatmul_tuple', 'to_angle', 'vec_to_angle', 'transform', 'from_basis', 'ang_from_basis', 'add', 'iadd', 'sub', 'neg', 'norm',
       'cross', 'localise', 'inverse', 'transpose', 'str', 'format', 'hash', 'from_angle', 'axis_mat', 'with_axes', 'rotate_by_str', 'round', 'abs',
       'aug', 'aug', 'binop', 'minmax', 'clamped', 'lerp', 'bbox', 'axis_angle', 'rotation_around', 'to_angle_roll', 'rotate', 'basis_vec', 'iter_tuple',
       'ang_compare', 'derive_mutate_derive', 'derive_mutate_derive']
AUG = ['+=', '-=', '*=', '/=', '//=', '%=', '@=']
BIN = ['+', '-', '*', '/', '//', '%', 'r-', 'r/', 'r%', 'divmod']
_COMP = re.compile(r'-?\d+(\.\d{1,6})?')


def _val(r: Rng) -> float:
    x = r.random()
    if x < 0.6:
        return r.pick(SEEDS)
    if x < 0.8:
        return round(r.uniform(-720, 720), r.randrange(0, 8))
    return r.uniform(-1e4, 1e4)


def gen(rng: Rng, tier: str, index: int) -> dict:
    r = rng.child('hist')
    n = r.randrange(4, 14) if r.chance(0.7) else r.randrange(14, 40)
    steps = [['new', r.pick(TYPES), [_val(r), _val(r), _val(r)]] for _ in range(3)]
    for _ in range(n):
        op = r.pick(OPS)
        st = [op, r.randrange(12), r.randrange(12), r.randrange(12)]
        if op == 'new':
            st = ['new', r.pick(TYPES), [_val(r), _val(r), _val(r)]]
        elif op in ('set_axis', 'setitem'):
            st = [op, r.randrange(12), r.randrange(3), _val(r)]
        elif op in ('imul', 'mul'):
            st = [op, r.randrange(12), r.pick([0.0, 1.0, -1.0, 2.0, 0.5, 360.0, -1e-9, 1e-15, 3.999999999])]
        elif op == 'format':
            st = [op, r.randrange(12), r.pick(['', '.3f', 'g', '.10g', '08.2f', '.0f'])]
        elif op == 'axis_mat':
            st = [op, r.pick(['pitch', 'yaw', 'roll']), _val(r)]
        elif op == 'rmatmul_tuple':
            st = [op, [_val(r), _val(r), _val(r)], r.randrange(12)]
        elif op == 'with_axes':
            st = [op, r.pick(['Vec', 'FrozenVec', 'Angle', 'FrozenAngle']), r.randrange(3), _val(r)]
        elif op == 'aug':
            st = [op, r.randrange(12), r.randrange(12), r.pick(AUG), r.pick([None, None, 2.0, -0.5, 360.0, 1e-9])]
        elif op == 'binop':
            st = [op, r.randrange(12), r.randrange(12), r.pick(BIN), r.pick([None, None, 2.0, -0.5, 7.25])]
        elif op in ('axis_angle', 'rotation_around', 'rotate'):
            st = [op, r.randrange(12), _val(r), _val(r), _val(r)]
        elif op == 'lerp':
            st = [op, r.randrange(12), r.randrange(12), r.pick([0.0, 0.5, 1.0, -1.0, 2.5])]
        elif op == 'derive_mutate_derive':
            st = [op, r.randrange(12), r.randrange(4), r.randrange(4), _val(r)]
        steps.append(st)
    return {'steps': steps}


def _kind(o):
    return type(o).__name__.replace('Py_', '')


def _comps(o):
    if isinstance(o, (Vec, FrozenVec)):
        return (o.x, o.y, o.z)
    if isinstance(o, (Angle, FrozenAngle)):
        return (o.pitch, o.yaw, o.roll)
    if isinstance(o, (Matrix, FrozenMatrix)):
        return tuple(o[i, j] for i in range(3) for j in range(3))
    return None


def _finite(o):
    c = _comps(o)
    return c is None or all(isinstance(x, float) and math.isfinite(x) for x in c)


def _vclass(x: float) -> str:
    if x == 360.0:
        return '==360'
    if x > 360.0:
        return '>360'
    if x < 0:
        return '<0'
    if x != x:
        return 'nan'
    return 'ok'


def run(case: dict) -> Outcome:
    out = Outcome()
    pool = []              # [obj, produced_by, frozen snapshot or None]
    dependent = 0

    def get(i):
        return pool[i % len(pool)][0] if pool else None

    def put(obj, op):
        snap = None
        if isinstance(obj, (FrozenVec, FrozenAngle, FrozenMatrix)):
            try:
                snap = (_comps(obj), hash(obj) if not isinstance(obj, FrozenMatrix) else None)
            except Exception:
                snap = (_comps(obj), None)
        if len(pool) >= 12:
            pool.pop(0)
        pool.append([obj, op, snap])

    def check_text(obj, text, op):
        if not _finite(obj):
            return
        parts = text.split(' ')
        kind = _kind(obj)
        if len(parts) != 3:
            out.violate('text-not-canonical', f'{kind}|shape', f'str() of {obj!r} is {text!r}')
            return
        for p, c in zip(parts, _comps(obj)):
            if not _COMP.fullmatch(p):
                cls = 'exponent' if 'e' in p.lower() else ('precision' if '.' in p and len(p.split('.')[1]) > 6 else 'other')
                out.violate('text-not-canonical', f'{kind}|{cls}', f'component {c!r} of a {kind} (produced by {op}) prints as {p!r}')
                return
            if p in ('-0',) or (p.startswith('-') and float(p) == 0):
                out.violate('text-not-canonical', f'{kind}|-0', f'component {c!r} of a {kind} (produced by {op}) prints as {p!r}')
                return
        try:
            back = type(obj).from_str(text)
        except Exception as exc:
            out.violate('text-roundtrip', f'{kind}|raised', f'from_str({text!r}) raised {exc!r}')
            return
        for a, b in zip(_comps(obj), _comps(back)):
            d = abs(a - b)
            if isinstance(obj, (Angle, FrozenAngle)):
                d = min(d, abs(d - 360.0))
            if d > 5e-7 * (1 + 1e-9) + abs(a) * 1e-15:
                out.violate('text-roundtrip', f'{kind}|value', f'{obj!r} prints as {text!r} which parses back to {back!r} (component {a!r} -> {b!r})')
                return

    def mk(t, vals):
        if t == 'Vec':
            return Vec(*vals)
        if t == 'FrozenVec':
            return FrozenVec(*vals)
        if t == 'Angle':
            return Angle(*vals)
        if t == 'FrozenAngle':
            return FrozenAngle(*vals)
        m = Matrix.from_angle(Angle(*vals))
        return m if t == 'Matrix' else m.freeze()

    for si, st in enumerate(case['steps']):
        op = st[0]
        out.steps += 1
        res = None
        src = None
        label = op
        try:
            if op == 'new':
                res = mk(st[1], st[2])
                label = f'new:{st[1]}'
            elif not pool:
                continue
            elif op == 'from_str':
                a = get(st[1])
                if isinstance(a, (Matrix, FrozenMatrix)):
                    res = Matrix.from_angstr(str(a.to_angle()))
                else:
                    res = type(a).from_str(str(a))
                dependent += 1
            elif op in ('copy', 'deepcopy', 'pickle', 'freeze', 'thaw'):
                src = get(st[1])
                if op == 'copy':
                    res = src.copy() if st[2] % 2 else copy.copy(src)
                elif op == 'deepcopy':
                    res = copy.deepcopy(src)
                elif op == 'pickle':
                    res = pickle.loads(pickle.dumps(src))
                elif op == 'freeze':
                    res = src.freeze() if hasattr(src, 'freeze') else type(src)(src)
                else:
                    res = src.thaw() if hasattr(src, 'thaw') else src.copy()
                label = f'{op}:{_kind(src)}'
            elif op in ('set_axis', 'setitem'):
                a = get(st[1])
                if isinstance(a, Vec):
                    if op == 'set_axis':
                        setattr(a, 'xyz'[st[2]], st[3])
                    else:
                        a[st[2]] = st[3]
                elif isinstance(a, Angle):
                    if op == 'set_axis':
                        setattr(a, ('pitch', 'yaw', 'roll')[st[2]], st[3])
                    else:
                        a[('pit', 'yaw', 'rol')[st[2]] if st[2] % 2 else st[2]] = st[3]
                elif isinstance(a, Matrix) and op == 'setitem':
                    a[st[2] % 3, (st[2] + 1) % 3] = max(-2.0, min(2.0, st[3]))
                label = f'{op}:{_kind(a)}'
            elif op == 'imul':
                a = get(st[1])
                if isinstance(a, (Vec, Angle)):
                    a *= st[2]
                label = f'imul:{_kind(a)}'
            elif op == 'mul':
                a = get(st[1])
                if isinstance(a, (Vec, FrozenVec, Angle, FrozenAngle)):
                    res = a * st[2] if st[1] % 2 else st[2] * a
                label = f'mul:{_kind(a)}'
            elif op == 'matmul':
                a, b = get(st[1]), get(st[2])
                res = a @ b
                label = f'matmul:{_kind(a)}@{_kind(b)}'
                dependent += 1
            elif op == 'imatmul':
                a, b = get(st[1]), get(st[2])
                if isinstance(a, (Vec, Angle, Matrix)):
                    a @= b
                    for ent in pool:
                        if ent[0] is a:
                            ent[1] = f'imatmul:{_kind(a)}@{_kind(b)}'
                label = f'imatmul:{_kind(a)}@{_kind(b)}'
                dependent += 1
            elif op == 'rmatmul_tuple':
                b = get(st[2])
                res = tuple(st[1]) @ b
                label = f'rmatmul:tuple@{_kind(b)}'
            elif op == 'to_angle':
                a = get(st[1])
                if isinstance(a, (Matrix, FrozenMatrix)):
                    res = a.to_angle()
                    dependent += 1
                label = f'to_angle:{_kind(a)}'
            elif op == 'vec_to_angle':
                a = get(st[1])
                if isinstance(a, (Vec, FrozenVec)):
                    res = a.to_angle(float(st[2]))
                label = 'Vec.to_angle'
            elif op == 'transform':
                a, b = get(st[1]), get(st[2])
                if isinstance(a, (Vec, Angle)) and isinstance(b, (Angle, FrozenAngle, Matrix, FrozenMatrix)):
                    with a.transform() as mat:
                        mat @= b
                    for ent in pool:
                        if ent[0] is a:
                            ent[1] = f'transform:{_kind(a)}'
                    dependent += 1
                label = f'transform:{_kind(a)}'
            elif op in ('from_basis', 'ang_from_basis'):
                a, b = get(st[1]), get(st[2])
                if isinstance(a, (Vec, FrozenVec)) and isinstance(b, (Vec, FrozenVec)) and a and b:
                    x = a.norm()
                    y = b.norm()
                    if abs(Vec.dot(x, y)) < 0.99:
                        z = Vec.cross(x, y).norm()
                        y = Vec.cross(z, x).norm()
                        res = Matrix.from_basis(x=x, y=y, z=z) if op == 'from_basis' else Angle.from_basis(x=x, y=y, z=z)
                        dependent += 1
            elif op in ('add', 'sub', 'cross'):
                a, b = get(st[1]), get(st[2])
                if isinstance(a, (Vec, FrozenVec)) and isinstance(b, (Vec, FrozenVec)):
                    res = a + b if op == 'add' else (a - b if op == 'sub' else a.cross(b))
                label = f'{op}:{_kind(a)}'
            elif op == 'iadd':
                a, b = get(st[1]), get(st[2])
                if isinstance(a, Vec) and isinstance(b, (Vec, FrozenVec)):
                    a += b
            elif op in ('neg', 'norm', 'abs', 'round'):
                a = get(st[1])
                if isinstance(a, (Vec, FrozenVec)):
                    res = -a if op == 'neg' else (a.norm() if op == 'norm' else (abs(a) if op == 'abs' else round(a, 3)))
                label = f'{op}:{_kind(a)}'
            elif op == 'localise':
                a, b, c = get(st[1]), get(st[2]), get(st[3])
                if isinstance(a, Vec) and isinstance(b, (Vec, FrozenVec)) and isinstance(c, (Angle, FrozenAngle, Matrix, FrozenMatrix)):
                    a.localise(b, c)
            elif op in ('inverse', 'transpose'):
                a = get(st[1])
                if isinstance(a, (Matrix, FrozenMatrix)):
                    res = a.inverse() if op == 'inverse' else a.transpose()
                label = f'{op}:{_kind(a)}'
            elif op == 'str':
                a = get(st[1])
                if isinstance(a, (Vec, FrozenVec, Angle, FrozenAngle)):
                    check_text(a, str(a), pool[st[1] % len(pool)][1])
                    j = a.join(' ')
                    if j != str(a):
                        out.violate('text-not-canonical', f'{_kind(a)}|join', f'join(" ") {j!r} differs from str() {str(a)!r}')
            elif op == 'format':
                a = get(st[1])
                if isinstance(a, (Vec, FrozenVec, Angle, FrozenAngle)):
                    format(a, st[2])
            elif op == 'hash':
                a = get(st[1])
                if isinstance(a, (FrozenVec, FrozenAngle)):
                    hash(a)
            elif op == 'from_angle':
                a = get(st[1])
                if isinstance(a, (Angle, FrozenAngle)):
                    res = (Matrix if st[2] % 2 else FrozenMatrix).from_angle(a)
                    dependent += 1
            elif op == 'axis_mat':
                res = getattr(Matrix, 'from_' + st[1])(st[2])
            elif op == 'with_axes':
                cls = {'Vec': Vec, 'FrozenVec': FrozenVec, 'Angle': Angle, 'FrozenAngle': FrozenAngle}[st[1]]
                axes = ('x', 'y', 'z') if 'Vec' in st[1] else ('pitch', 'yaw', 'roll')
                res = cls.with_axes(axes[st[2]], st[3])
            elif op == 'aug':
                # augmented assignment: in place on the mutable classes, a new object on the frozen ones
                a, b, sym, scalar = get(st[1]), get(st[2]), st[3], st[4]
                rhs = b if scalar is None else scalar
                src_id = id(a)
                ns = {'a': a, 'b': rhs}
                exec(f'a {sym} b', {}, ns)
                if ns['a'] is not a:
                    res = ns['a']
                    if isinstance(a, (Vec, Angle, Matrix)) and isinstance(res, type(a)):
                        out.event(si, 'aug-rebound', _kind(a))
                label = f'aug{sym}:{_kind(a)}'
                if scalar is None:
                    dependent += 1
            elif op == 'binop':
                a, b, sym, scalar = get(st[1]), get(st[2]), st[3], st[4]
                rhs = b if scalar is None else scalar
                if sym == 'divmod':
                    res = divmod(a, rhs)[st[1] % 2]
                elif sym.startswith('r'):
                    res = eval(f'b {sym[1:]} a', {}, {'a': a, 'b': rhs if scalar is not None else tuple(_comps(b))[:3]})
                else:
                    res = eval(f'a {sym} b', {}, {'a': a, 'b': rhs})
                label = f'bin{sym}:{_kind(a)}'
            elif op == 'minmax':
                a, b = get(st[1]), get(st[2])
                if isinstance(a, Vec) and isinstance(b, (Vec, FrozenVec)):
                    (a.max if st[3] % 2 else a.min)(b)
                label = 'minmax'
            elif op == 'clamped':
                a, b, c = get(st[1]), get(st[2]), get(st[3])
                if isinstance(a, (Vec, FrozenVec)) and isinstance(b, (Vec, FrozenVec)) and isinstance(c, (Vec, FrozenVec)):
                    res = a.clamped(b, c) if st[1] % 2 else a.clamped(mins=b)
                label = f'clamped:{_kind(a)}'
            elif op == 'lerp':
                a, b = get(st[1]), get(st[2])
                if isinstance(a, (Vec, FrozenVec)) and isinstance(b, (Vec, FrozenVec)):
                    res = type(a).lerp(st[3], 0.0, 1.0, a, b)
                label = f'lerp:{_kind(a)}'
            elif op == 'bbox':
                a, b, c = get(st[1]), get(st[2]), get(st[3])
                if all(isinstance(x, (Vec, FrozenVec)) for x in (a, b, c)):
                    lo, hi = type(a).bbox(a, b, c) if st[1] % 2 else type(a).bbox([a, b, c])
                    put(lo, f'bbox:{_kind(a)}')
                    res = hi
                label = f'bbox:{_kind(a)}'
            elif op == 'axis_angle':
                a = get(st[1])
                if isinstance(a, (Vec, FrozenVec)) and a:
                    res = (Matrix if st[1] % 2 else FrozenMatrix).axis_angle(a if st[1] % 3 else tuple(a), st[2])
                    dependent += 1
                label = 'axis_angle'
            elif op == 'rotation_around':
                a = Vec([(1, 0, 0), (-1, 0, 0), (0, 1, 0), (0, -1, 0), (0, 0, 1), (0, 0, -1)][st[1] % 6])     # defined for axis directions only
                with warnings.catch_warnings():
                    warnings.simplefilter('ignore')
                    res = a.rotation_around(st[2])
                label = 'rotation_around'
            elif op == 'to_angle_roll':
                a, b = get(st[1]), get(st[2])
                if isinstance(a, Vec) and isinstance(b, (Vec, FrozenVec)) and a and b:
                    x = a.norm()
                    if abs(Vec.dot(x, b.norm())) < 0.99:
                        z = Vec.cross(Vec.cross(x, b.norm()), x).norm()
                        with warnings.catch_warnings():
                            warnings.simplefilter('ignore')
                            res = x.to_angle_roll(z)
                        dependent += 1
                label = 'to_angle_roll'
            elif op == 'rotate':
                a = get(st[1])
                if isinstance(a, Vec):
                    with warnings.catch_warnings():
                        warnings.simplefilter('ignore')
                        a.rotate(st[2], st[3], st[4])
                label = 'rotate'
            elif op == 'basis_vec':
                a = get(st[1])
                if isinstance(a, (Matrix, FrozenMatrix)):
                    res = (a.forward, a.left, a.up)[st[2] % 3]()
                    dependent += 1
                label = f'basis_vec:{_kind(a)}'
            elif op == 'iter_tuple':
                a = get(st[1])
                if isinstance(a, (Vec, FrozenVec, Angle, FrozenAngle)):
                    t = tuple(a)
                    if t != tuple(a[i] for i in range(3)) or tuple(reversed(a)) != t[::-1]:      # (as_tuple() rounds by design: not compared)
                        out.violate('copy-unequal', f'iter|{_kind(a)}', f'iteration / indexing of {a!r} disagree: {t}')
                    res = type(a)(*t)
                    src = a
                label = f'iter_tuple:{_kind(a)}'
            elif op == 'ang_compare':
                a, b = get(st[1]), get(st[2])
                if isinstance(a, (Angle, FrozenAngle)) and isinstance(b, (Angle, FrozenAngle)):
                    if (a == b) == (a != b):
                        out.violate('copy-unequal', 'eq-ne', f'{a!r} == {b!r} and != agree')
                label = 'ang_compare'
            elif op == 'derive_mutate_derive':
                # a value derived from a mutable object, an in-place change, the same derivation again: the second result
                # must describe the object as it is now (no stale memo)
                a = get(st[1])
                if isinstance(a, (Vec, Angle, Matrix)):
                    def derive(x, k):
                        if k == 0:
                            return _comps(x.freeze())
                        if k == 1:
                            return _comps(x.copy())
                        if k == 2:
                            return str(x) if not isinstance(x, Matrix) else _comps(x.to_angle())
                        return tuple(_comps(pickle.loads(pickle.dumps(x))))
                    d1 = derive(a, st[2])
                    v = max(-300.0, min(300.0, st[4]))
                    if isinstance(a, Vec):
                        [lambda: setattr(a, 'x', a.x + 1.5), lambda: a.__imul__(2.0), lambda: a.__setitem__(1, v), lambda: a.localise(Vec(1, 2, 3), Angle(0, 90, 0))][st[3]]()
                    elif isinstance(a, Angle):
                        [lambda: setattr(a, 'yaw', v), lambda: a.__setitem__(0, v), lambda: a.__imul__(2.0), lambda: setattr(a, 'roll', a.roll + 10)][st[3]]()
                    else:
                        if st[3] % 2:
                            a[0, 1] = max(-2.0, min(2.0, v))
                        else:
                            a @= Matrix.from_yaw(v)
                    d2 = derive(a, st[2])
                    fresh = type(a)(a) if not isinstance(a, Matrix) else a.copy()
                    want = derive(fresh, st[2]) if st[2] == 2 else tuple(_comps(a))
                    if (d2 if st[2] == 2 else tuple(d2)) != want and all(c == c for c in _comps(a)):
                        out.violate('copy-unequal', f'stale-after-mutation|{_kind(a)}|derive{st[2]}', f'{["freeze()", "copy()", "str()/to_angle()", "pickle"][st[2]]} of a {_kind(a)} after an in-place change still describes the old value: {d2!r}, object is {_comps(a)!r} (before the change it gave {d1!r})')
                    for ent in pool:
                        if ent[0] is a:
                            ent[1] = 'derive_mutate_derive'
                label = f'derive_mutate_derive:{_kind(a)}'
            elif op == 'rotate_by_str':
                a, b = get(st[1]), get(st[2])
                if isinstance(a, Vec) and isinstance(b, (Angle, FrozenAngle)):
                    a.rotate_by_str(str(b))
        except (TypeError, ValueError, ArithmeticError, KeyError, IndexError, AttributeError, NotImplementedError):
            out.event(si, op, 'rejected')
            continue
        except Exception as exc:
            out.violate('op-raised', f'{label}|{type(exc).__name__}', f'step {si} {st} raised {exc!r}')
            continue
        if res is not None and not isinstance(res, (Vec, FrozenVec, Angle, FrozenAngle, Matrix, FrozenMatrix)):
            res = None
        # ---- copy semantics
        if src is not None and res is not None and _finite(src):
            if _comps(res) != _comps(src) and not (op in ('freeze', 'thaw') and isinstance(src, (Angle, FrozenAngle)) and False):
                out.violate('copy-unequal', label, f'{label}: {src!r} -> {res!r}')
            try:
                eq = (res == src)
            except Exception:
                eq = True
            if eq is False and all(c == c for c in _comps(src)):
                out.violate('copy-unequal', label + '|eq', f'{label}: result {res!r} != source {src!r}')
            if isinstance(res, (Vec, Angle, Matrix)):
                if res is src:
                    out.violate('copy-aliased', label, f'{label} returned the same mutable object')
                else:
                    before = _comps(src)
                    if isinstance(res, Vec):
                        res.x += 1.5
                    elif isinstance(res, Angle):
                        res.yaw = (res.yaw + 10) % 360
                    else:
                        res[0, 0] = res[0, 0] + 0.5
                    if _comps(src) != before:
                        out.violate('copy-aliased', label, f'mutating the result of {label} changed its source')
                    # undo
                    if isinstance(res, Vec):
                        res.x -= 1.5
        if res is not None:
            put(res, label)
            out.states.add(f'{label}')
        # ---- invariants over the whole pool after every step
        alive = True
        for obj, produced, snap in pool:
            comps = _comps(obj)
            if not all(math.isfinite(c) for c in comps):
                alive = False
                continue
            if isinstance(obj, (Angle, FrozenAngle)):
                for name, c in zip(('pitch', 'yaw', 'roll'), comps):
                    if not (0.0 <= c < 360.0):
                        out.violate('angle-out-of-range', f'{produced.split(":")[0]}|{name}|{_vclass(c)}',
                                    f'after step {si} {st}: {_kind(obj)} produced by {produced} has {name} = {c!r}')
            if snap is not None:
                now = (comps, hash(obj) if snap[1] is not None else None)
                if now != snap:
                    out.violate('frozen-changed', f'{op}|{_kind(obj)}', f'step {si} {st} changed a {_kind(obj)}: {snap[0]} -> {comps}')
        if isinstance(res, (Vec, FrozenVec, Angle, FrozenAngle)) and _finite(res) and out.steps % 3 == 0:
            check_text(res, str(res), label)
        out.event(si, op, None if res is None else [_kind(res), [repr(c) for c in _comps(res)]])
        if not alive or any(not v['clause'].startswith('text-') for v in out.viol):
            break       # text findings do not corrupt the pool: keep exploring
    if dependent >= 2:
        out.nontrivial = True
    out.sample = {'steps': case['steps'][:20]}
    return out


def simplify(case: dict):
    steps = case['steps']
    for i, st in enumerate(steps):
        if st[0] == 'new':
            for k in range(3):
                if st[2][k] != 0.0:
                    v = list(st[2])
                    v[k] = 0.0
                    yield dict(case, steps=steps[:i] + [['new', st[1], v]] + steps[i + 1:])

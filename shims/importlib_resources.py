"""Harness shim: /repo/src/srctools/fgd.py imports the `importlib_resources` backport,
which is not installed and not in the offline wheelhouse.  The stdlib module has the same API."""
from importlib.resources import files, as_file  # noqa: F401
